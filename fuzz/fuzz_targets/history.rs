#![no_main]
//! Coverage-guided target: bytes -> E1 history -> interpreter with all oracles inside the target
//! (return values vs model, fresh-reader dump, independent parser, DB::check after every commit;
//! every second input additionally in C07 mode: full read API after every operation).
use libfuzzer_sys::fuzz_target;
use std::sync::OnceLock;

static DIR: OnceLock<std::path::PathBuf> = OnceLock::new();
static KNOWN: OnceLock<jv::runner::Known> = OnceLock::new();

fuzz_target!(|data: &[u8]| {
    if data.len() < 4 {
        return;
    }
    let dir = DIR.get_or_init(|| {
        let d = jv::runner::scratch_base().join(format!("jv-fuzz-{}", std::process::id()));
        let _ = std::fs::create_dir_all(&d);
        d
    });
    let known = KNOWN.get_or_init(jv::runner::Known::load);
    let case = jv::decode::decode_history(data);
    let mut opts = jv::interp::RunOpts::standard(dir.join("f.db"));
    if data[data.len() - 1] & 1 == 1 {
        opts.full_check_every_op = true;
    }
    if data[data.len() - 1] & 2 == 2 {
        opts.bytes_unchanged = true;
        opts.dump_after_error = true;
    }
    let o = jv::interp::run_history(&case, &opts);
    if let Err(f) = o.result {
        if f.kind == "harness_panic" {
            return;
        }
        // tolerate listed known findings so the campaign continues past them
        for p in ["C01", "C05", "C06", "C07", "C08"] {
            if known.matches(p, &f).is_some() {
                return;
            }
        }
        panic!("ORACLE FAILURE: {}", f.line());
    }
});
