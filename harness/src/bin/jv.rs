use jv::checks;
use jv::runner::*;
use std::path::PathBuf;

fn usage() -> ! {
    eprintln!("usage: jv run <ID> <quick|thorough> | jv shard ... | jv replay <file>");
    std::process::exit(2)
}

fn main() {
    let args: Vec<String> = std::env::args().collect();
    if args.len() < 2 {
        usage();
    }
    match args[1].as_str() {
        "run" => {
            if args.len() < 4 {
                usage();
            }
            let def = checks::find(&args[2]).unwrap_or_else(|| {
                eprintln!("unknown check {}", args[2]);
                std::process::exit(2)
            });
            let tier = Tier::parse(&args[3]).unwrap_or_else(|| usage());
            let code = run_parent(&def.meta, tier, def.nshards, def.extra_thorough().is_some());
            std::process::exit(code);
        }
        "shard" => {
            // jv shard <ID> <tier> <i> <n> <outfile> <scratchdir>
            if args.len() < 8 {
                usage();
            }
            let def = checks::find(&args[2]).unwrap_or_else(|| usage());
            let tier = Tier::parse(&args[3]).unwrap_or_else(|| usage());
            let shard: usize = args[4].parse().unwrap();
            let nshards: usize = args[5].parse().unwrap();
            let seed: u64 = std::env::var("VERIF_SEED").ok().and_then(|s| s.parse().ok()).unwrap_or(1);
            let ctx = ShardCtx {
                id: def.meta.id.to_string(),
                tier,
                seed,
                shard,
                nshards,
                scratch: PathBuf::from(&args[7]),
                strict_known: false,
                out_path: Some(PathBuf::from(&args[6])),
            };
            let known = Known::load();
            let out = if shard == nshards {
                match def.extra_thorough() {
                    Some(f) => f(&ctx, &known),
                    None => Default::default(),
                }
            } else {
                (def.shard)(&ctx, &known)
            };
            std::fs::write(&args[6], serde_json::to_string(&out).unwrap()).expect("write shard result");
        }
        "worker" => {
            std::process::exit(jv::worker::main(&args[2..]));
        }
        "golden-gen" => {
            let grown = args.get(3).map(|a| a == "grown").unwrap_or(false);
            let r = if grown { jv::golden::generate_grown(std::path::Path::new(&args[2])) } else { jv::golden::generate(std::path::Path::new(&args[2])) };
            match r {
                Ok(()) => {}
                Err(e) => {
                    eprintln!("{}", e);
                    std::process::exit(1);
                }
            }
        }
        "show" => {
            // compact rendering of a replay file
            let s = std::fs::read_to_string(&args[2]).expect("read");
            let fr: FailRec = serde_json::from_str(&s).expect("parse");
            println!("{} [{}] {}", fr.property, fr.kind, fr.failure.line());
            if let Ok(c) = serde_json::from_value::<jv::ops::HistoryCase>(fr.case.clone()) {
                println!("cfg {:?} fresh_handles={}", c.cfg, c.fresh_handles);
                for (i, t) in c.txs.iter().enumerate() {
                    println!("tx {} {:?}", i, t.kind);
                    for (j, o) in t.ops.iter().enumerate() {
                        println!("   {:3} {}", j, serde_json::to_string(o).unwrap());
                    }
                }
            } else {
                println!("{}", serde_json::to_string_pretty(&fr.case).unwrap());
            }
        }
        "replay" => {
            if args.len() < 3 {
                usage();
            }
            std::process::exit(jv::replay::replay_file(&args[2]));
        }
        _ => usage(),
    }
}
