//! C01 — committed data reads back exactly as a reference ordered map would.

use super::CheckDef;
use crate::interp::{run_history, CaseStats, RunOpts};
use crate::ops::*;
use crate::runner::*;
use crate::shapes::{shape_case, ShapeKind, ALL_KINDS};

pub fn def() -> CheckDef {
    CheckDef {
        meta: CheckMeta {
            id: "C01",
            level: "exploration",
            rule: "proptest-generated API histories (1-12 transactions of 0-40 ops: put/get/delete/runs/bucket create-get-delete at any depth/scan/seek/range; commit, rollback, read tx, reopen; empty, short and >page keys; values empty to 12 pages; every ToBytes argument kind) plus the enumeration of all deletion subsets (x insertion / sub-bucket-touch subsets) of one-, two-, three-level and mixed buckets; oracle = reference nested map for every return value, fresh-reader dump + independent file parser + reopen after every commit. Non-trivial = at least 2 committed transactions that changed the state and at least one of: tree height >= 2, reachable pages decreased (merge), height decreased (root collapse), overflow value, bucket delete at depth >= 1, reopen mid-history, rollback followed by a commit. Distinct = hash of the case.",
            assumptions: &[
                "x86_64 Linux, scratch files on tmpfs",
                "reference model encodes the documented API semantics (DESIGN.md 1.3)",
                "stale handles (to descendants of deleted buckets, cursors across mutations) are never generated: documented misuse",
            ],
        },
        shard,
        nshards: NSHARDS,
    }
}

pub fn nontrivial(s: &CaseStats) -> bool {
    s.mut_commits >= 2
        && (s.max_height >= 2
            || s.pages_decreased
            || s.height_decreased
            || s.overflow
            || s.nested_bucket_delete
            || s.reopen_mid
            || s.rollback_then_commit)
}

pub fn classes(s: &CaseStats) -> Vec<String> {
    let mut c = Vec::new();
    let mut add = |b: bool, n: &str| {
        if b {
            c.push(n.to_string())
        }
    };
    add(s.max_height >= 2, "height>=2");
    add(s.max_height >= 3, "height>=3");
    add(s.pages_decreased, "merge(pages decreased)");
    add(s.height_decreased, "root collapse(height decreased)");
    add(s.overflow, "overflow value");
    add(s.nested_bucket_delete, "nested bucket delete");
    add(s.bucket_deletes > 0, "bucket delete");
    add(s.reopen_mid, "reopen mid-history");
    add(s.reader_dance, "short-lived reader around every writer");
    add(s.rollback_then_commit, "rollback then commit");
    add(s.growth, "file growth");
    add(s.split, "split");
    add(s.empty_key, "empty key");
    add(s.huge_key, "key > 1 KiB");
    add(s.err_returns > 0, "error return checked");
    add(s.in_tx_scans > 0, "in-tx scan");
    add(s.iter_handles > 0, "handles adopted from to_buckets()");
    add(s.read_txs > 0, "read tx");
    c
}

pub fn verdict(case: &HistoryCase, opts: &RunOpts) -> CaseVerdict {
    let o = run_history(case, opts);
    CaseVerdict {
        nontrivial: nontrivial(&o.stats),
        classes: classes(&o.stats),
        failure: o.result.err(),
    }
}

pub fn shape_plan(tier: Tier) -> Vec<(ShapeKind, usize)> {
    match tier {
        Tier::Quick => vec![
            (ShapeKind::OneLevel, 6),
            (ShapeKind::TwoLevel, 10),
            (ShapeKind::ThreeLevel, 10),
            (ShapeKind::Mixed, 10),
        ],
        Tier::Thorough => vec![
            (ShapeKind::OneLevel, 8),
            (ShapeKind::TwoLevel, 14),
            (ShapeKind::ThreeLevel, 14),
            (ShapeKind::Mixed, 14),
        ],
    }
}

/// Enumerates this shard's share of all deletion subsets; calls f(case).
pub fn for_each_shape(ctx: &ShardCtx, mut f: impl FnMut(&HistoryCase)) -> bool {
    let _ = ALL_KINDS;
    let mut rng = Rng(ctx.shard_seed("shapes"));
    for (kind, k) in shape_plan(ctx.tier) {
        let n: u32 = 1 << k;
        for del in 0..n {
            if (del as usize) % ctx.nshards != ctx.shard {
                continue;
            }
            // every deletion subset once without insertions ...
            let variant = (rng.below(8)) as u8;
            f(&shape_case(kind, k, del, 0, if kind == ShapeKind::Mixed { rng.next() as u32 } else { 0 }, variant));
            // ... and once with a seeded insertion / touch subset
            let ins = rng.next() as u32 & (n - 1);
            let touch = rng.next() as u32 & (n - 1);
            let variant = (rng.below(8)) as u8;
            f(&shape_case(kind, k, del, ins, touch, variant));
        }
    }
    true
}

fn shard(ctx: &ShardCtx, known: &Known) -> ShardOut {
    let mut out = ShardOut::default();
    let path = ctx.db_path("c01.db");
    let opts = RunOpts::standard(path);
    // 1. random histories
    let cases = ctx.tier.pick(4000, 40000);
    let strat = history(11, 40, OpWeights::default(), (10, 3, 2, 2));
    let ps = |c: &HistoryCase| minimize_with(ctx, known, c, &opts);
    drive(ctx, &mut out, known, "history", strat, cases, "hist", Some(&ps), |case| {
        note_current(ctx, "history", case);
        verdict(case, &opts)
    });
    // 2. shape subsets
    let mut exhaustive = true;
    for_each_shape(ctx, |case| {
        note_current(ctx, "history", case);
        let v = verdict(case, &opts);
        if !record_case(ctx, &mut out, known, "history", case, v) {
            exhaustive = exhaustive && true;
        }
    });
    // 3. a parent with hundreds to thousands of sibling buckets that are all opened in one transaction
    for i in 0..ctx.tier.pick(1usize, 3) {
        let n = [260u16, 520, 1030, 1100, 2100][(ctx.shard + i) % 5];
        let case = crate::gen::wide_parent_history(n, (ctx.shard / 5 + i) as u8);
        note_current(ctx, "history", &case);
        let mut v = verdict(&case, &opts);
        v.classes.push(format!("parent with {} sibling buckets, all opened in one transaction", n));
        record_case(ctx, &mut out, known, "history", &case, v);
    }
    clear_current(ctx);
    out.extra.insert(
        "shape_subsets".into(),
        serde_json::json!(format!("all 2^k deletion subsets enumerated for {:?}", shape_plan(ctx.tier))),
    );
    out
}

/// Minimises a failing history keeping the failure kind (and not drifting into a known finding).
pub fn minimize_with(ctx: &ShardCtx, known: &Known, case: &HistoryCase, opts: &RunOpts) -> HistoryCase {
    let orig = (0..4).find_map(|_| run_history(case, opts).result.err());
    let kind = match orig {
        Some(f) => f.kind,
        None => return case.clone(),
    };
    let prop = ctx.id.clone();
    minimize_history(
        case,
        &|c| match run_history(c, opts).result {
            Err(f) => f.kind == kind && (ctx.strict_known || known.matches(&prop, &f).is_none()),
            Ok(()) => false,
        },
        2500,
    )
}
