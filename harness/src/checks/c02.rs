//! C02 — a crash at any instant leaves the previous or the new commit, never a mix.

use super::CheckDef;
use crate::crash::*;
use crate::interp::Failure;
use crate::model::MBucket;
use crate::ops::*;
use crate::runner::*;
use serde::{Deserialize, Serialize};
use std::path::Path;

pub fn def() -> CheckDef {
    CheckDef {
        meta: CheckMeta {
            id: "C02",
            level: "fault_enumeration",
            rule: "generated histories (small and large transactions, bucket deletes, growth from a 4-page file, page reuse, histories whose free list spans several pages: a few hundred page-sized values deleted at once, then small commits; histories that resize one value so that its leaf is exactly 2-4 pages long or one byte off; 1 history in 8 is turned into a legacy-format (<= 0.10 headers) file half-way; two histories whose free list exceeds 4091 entries (a page image above 32 KiB); per shard 4 (thorough 8) histories with two commits of about a thousand pages each, sized so that the number of page writes per commit sweeps through 1024 across the shards; in 5 of 16 histories every write transaction is accompanied by a short-lived reader, open when the writer begins and closed before its commit or right after its begin) are executed by a worker process under the LD_PRELOAD I/O shim, which logs every write (offset, bytes), sync and file size on the database descriptor, with markers around every commit. For every group of writes between two completed syncs the analyser synthesises crash images on a scratch file: every subset of the unsynced writes (exhaustive up to 10 writes; above: none/all, singletons, complements, prefixes = process kill, suffixes, header-only, data-only, seeded random subsets), each write additionally torn at 512-byte sectors (prefix lost / tail lost / seeded sector subset) and header writes at 8-byte word granularity (every word prefix, every single word missing, every single word alone, seeded word subsets), with the file-size change durable or lost. Oracle per image: the independent parser says structurally sound and shows exactly S_{i-1} or S_i (exactly S_i once commit i has returned), and reopening through the public API succeeds and dumps the same. An evaluation is one distinct image (by content). Non-trivial = image with at least one but not all writes of its group applied, or a torn write.",
            assumptions: &[
                "power-loss model: writes issued since the last completed fsync/fdatasync may be lost, reordered or torn at sector (header: word) granularity; a completed sync is durable including the file size",
                "crashes during initial file creation are out of scope of the property",
                "fallocate/flock are raw syscalls invisible to the shim: file size is observed with fstat after every logged call",
            ],
        },
        shard,
        nshards: NSHARDS,
    }
}

#[derive(Serialize, Deserialize, Clone, Debug)]
pub struct C02Case {
    pub history: HistoryCase,
    /// short-lived reader around every writer (RunOpts::reader_dance)
    #[serde(default)]
    pub dance: u8,
    /// index of a Reopen transaction at which the harness re-encodes both headers in the legacy format
    #[serde(default)]
    pub legacy_at: Option<usize>,
}

pub struct Analysis {
    pub images: u64,
    pub deduped: u64,
    pub nontrivial_hashes: Vec<u64>,
    pub groups: u64,
    pub exhaustive_groups: u64,
    pub commits: u64,
    pub max_group: usize,
    pub size_change_groups: u64,
    pub samples: Vec<String>,
}

pub fn shim_path() -> std::path::PathBuf {
    verif_root().join("shim").join("io_shim.so")
}

/// Runs the worker under the shim. Returns (events, models S_1..S_n).
pub fn run_worker(case: &HistoryCase, dir: &Path, extra_env: &[(&str, String)], mode: &str) -> Result<(Vec<Ev>, Vec<MBucket>, std::process::Output), Failure> {
    let db = dir.join("w.db");
    let log = dir.join("w.log");
    let models = dir.join("w.models.json");
    let casef = dir.join("w.case.json");
    for p in [&db, &log, &models] {
        let _ = std::fs::remove_file(p);
    }
    std::fs::write(&casef, serde_json::to_string(case).unwrap()).map_err(|e| Failure::new("io", e.to_string()))?;
    let shim = shim_path();
    if !shim.exists() {
        return Err(Failure::new("harness_panic", format!("{} missing (run setup)", shim.display())));
    }
    let mut cmd = std::process::Command::new(std::env::current_exe().unwrap());
    cmd.arg("worker").arg(mode).arg(&casef).arg(&db).arg(&models);
    cmd.env("LD_PRELOAD", &shim).env("JV_SHIM_DB", &db).env("JV_SHIM_LOG", &log).env("RUST_BACKTRACE", "0");
    for (k, v) in extra_env {
        cmd.env(k, v);
    }
    let out = cmd.output().map_err(|e| Failure::new("harness_panic", format!("cannot spawn worker: {}", e)))?;
    let evs = parse_log(&log).map_err(|e| Failure::new("harness_panic", e))?;
    let ms: Vec<MBucket> = std::fs::read_to_string(&models)
        .ok()
        .and_then(|s| serde_json::from_str::<Vec<serde_json::Value>>(&s).ok())
        .map(|v| v.iter().filter_map(MBucket::from_value).collect())
        .unwrap_or_default();
    Ok((evs, ms, out))
}

pub fn analyse(case: &HistoryCase, dance: u8, legacy_at: Option<usize>, dir: &Path, seed: u64, exhaustive_up_to: usize, random_subsets: usize) -> Result<Analysis, Failure> {
    let mut env = vec![("JV_READER_DANCE", dance.to_string())];
    if let Some(i) = legacy_at {
        env.push(("JV_LEGACY_AT", i.to_string()));
    }
    let (evs, models, out) = run_worker(case, dir, &env, "crash")?;
    if !out.status.success() {
        return Err(Failure::new(
            "worker",
            format!("worker failed ({}): {}", out.status, String::from_utf8_lossy(&out.stdout).lines().last().unwrap_or("")),
        ));
    }
    let empty = MBucket::default();
    let state = |i: usize| -> &MBucket {
        if i == 0 {
            &empty
        } else {
            &models[(i - 1).min(models.len().saturating_sub(1))]
        }
    };
    let mut ck = ImageChecker::new(case.cfg.clone(), dir.join("img.db"));
    let mut a = Analysis { images: 0, deduped: 0, nontrivial_hashes: vec![], groups: 0, exhaustive_groups: 0, commits: 0, max_group: 0, size_change_groups: 0, samples: vec![] };
    let mut rng = Rng(seed);
    let mut unsynced: Vec<W> = Vec::new();
    let mut cur_size = 0u64;
    let mut started = false;
    let mut in_commit = false;
    let mut harness_write = false; // between HBEGIN and HEND: the harness edits the closed file
    let mut c = 0usize; // commits that returned Ok
    for (ei, ev) in evs.iter().enumerate() {
        match ev {
            Ev::Mmap { prot, .. } => {
                if prot & 2 != 0 {
                    return Err(Failure::new("harness_panic", "database file mapped writable: the write log cannot be trusted".into()));
                }
            }
            Ev::Open { size, .. } => {
                if *size > cur_size {
                    cur_size = *size;
                }
            }
            Ev::Write { off, data, size, result } => {
                if *result > 0 {
                    unsynced.push(W { off: *off, data: data.clone() });
                }
                cur_size = *size;
            }
            Ev::Trunc { size, .. } | Ev::Falloc { size, .. } => cur_size = *size,
            Ev::Marker(m) => match m.as_str() {
                "OPENED" => {
                    if !started {
                        started = true;
                        ck.sync(&unsynced, cur_size)?;
                        unsynced.clear();
                        ck.check_current(&[state(0)], "freshly created database", "after open returned")?;
                    }
                }
                "BEGIN" => in_commit = true,
                "HBEGIN" => harness_write = true,
                "HEND" => {
                    // the harness's own edit is taken as a whole (no crash images inside it)
                    harness_write = false;
                    ck.sync(&unsynced, cur_size)?;
                    unsynced.clear();
                }
                "OK" => {
                    in_commit = false;
                    c += 1;
                    a.commits += 1;
                    if c > models.len() {
                        return Err(Failure::new("harness_panic", "more commits in the log than models".into()));
                    }
                    // once commit has returned, a crash must show exactly the new state
                    let what = format!("after commit {} returned", c);
                    ck.check_current(&[state(c)], &what, "durable image")?;
                    if !unsynced.is_empty() {
                        let size_changed = cur_size != ck.durable.len() as u64;
                        let (specs, _) = enumerate_images(&unsynced, size_changed, case.cfg.pagesize, &mut rng, exhaustive_up_to, random_subsets);
                        for s in &specs {
                            ck.check(&unsynced, cur_size, s, &[state(c)], &what)?;
                        }
                    }
                }
                _ => {}
            },
            Ev::Sync { size, result } => {
                cur_size = *size;
                if *result != 0 || harness_write {
                    continue;
                }
                if started {
                    let allowed: Vec<&MBucket> = if in_commit { vec![state(c), state(c + 1)] } else { vec![state(c)] };
                    let what = if in_commit { format!("during commit {}", c + 1) } else { format!("after commit {}", c) };
                    if !unsynced.is_empty() {
                        let size_changed = cur_size != ck.durable.len() as u64;
                        let (specs, ex) = enumerate_images(&unsynced, size_changed, case.cfg.pagesize, &mut rng, exhaustive_up_to, random_subsets);
                        a.groups += 1;
                        if ex {
                            a.exhaustive_groups += 1;
                        }
                        if size_changed {
                            a.size_change_groups += 1;
                        }
                        a.max_group = a.max_group.max(unsynced.len());
                        for s in &specs {
                            ck.check(&unsynced, cur_size, s, &allowed, &what).map_err(|mut f| {
                                f.op = Some(ei);
                                f
                            })?;
                        }
                    }
                    ck.sync(&unsynced, cur_size)?;
                    unsynced.clear();
                    ck.check_current(&allowed, &what, "after the sync completed")?;
                }
            }
            _ => {}
        }
    }
    a.images = ck.images_checked;
    a.deduped = ck.images_deduped;
    a.nontrivial_hashes = std::mem::take(&mut ck.nontrivial_hashes);
    a.samples = std::mem::take(&mut ck.samples);
    let _ = std::fs::remove_file(dir.join("img.db"));
    Ok(a)
}

/// A history whose free list needs several pages: fill a bucket with a few hundred page-sized
/// values, delete it, then small commits (each rewrites a multi-page free list).
pub fn big_freelist_history(seed: u64) -> HistoryCase {
    let mut txs = vec![TxSpec {
        kind: TxKind::Commit,
        ops: vec![
            Op::GetOrCreate { b: 0, k: KeySel::Lit(b"big".to_vec()), kk: 2 },
            Op::GetOrCreate { b: 0, k: KeySel::Lit(b"small".to_vec()), kk: 2 },
        ],
    }];
    let runs = 5 + (seed % 4) as u16;
    let mut fill = Vec::new();
    for r in 0..runs {
        fill.push(Op::PutRun { b: 0, base: vec![b'v'], start: r * 39, step: 1, n: 39, klen: 0, vlen: 900 });
    }
    txs.push(TxSpec { kind: TxKind::Commit, ops: fill });
    txs.push(TxSpec { kind: TxKind::Commit, ops: vec![Op::DeleteBucket { b: 0, k: KeySel::Lit(b"big".to_vec()), kk: 2 }] });
    for i in 0..4u16 {
        txs.push(TxSpec {
            kind: TxKind::Commit,
            ops: vec![
                Op::PutRun { b: 0, base: vec![b's'], start: i * 3, step: 1, n: 3 + (seed % 3) as u8, klen: 0, vlen: 100 + 50 * i },
                Op::DeleteRun { b: 0, start: (seed as u16).wrapping_mul(977), n: 2 },
            ],
        });
        if i == 1 && seed % 2 == 0 {
            txs.push(TxSpec { kind: TxKind::Reopen, ops: vec![] });
        }
    }
    HistoryCase { cfg: Cfg { pagesize: 1024, num_pages: 32, strict: false, populate: false }, fresh_handles: false, txs, dance: 0 }
}

/// One key whose value is resized from transaction to transaction so that its leaf serialises to
/// exactly 2-4 pages (or one byte more / less): allocation and reuse at exact page multiples.
pub fn exactfit_history(seed: u64) -> HistoryCase {
    let mut rng = Rng(seed);
    let ps = 1024i64;
    let put = |key: &[u8], v: ValSel| Op::Put { b: 0, k: KeySel::Lit(key.to_vec()), v, kk: 2, vk: 2 };
    let mut txs = vec![TxSpec { kind: TxKind::Commit, ops: vec![Op::GetOrCreate { b: 0, k: KeySel::Lit(b"b".to_vec()), kk: 2 }] }];
    for len in [500u32, 1500] {
        txs.push(TxSpec { kind: TxKind::Commit, ops: vec![put(b"k", ValSel::Fill { len, seed: len as u8 })] });
    }
    for i in 0..(5 + seed % 4) {
        // the first resized value is an exact fit; later ones vary
        let k = if i == 0 { 2 + (seed / 8 % 3) as i64 } else { 2 + rng.below(3) as i64 };
        let d = if i == 0 { 0 } else { [0i64, 0, 0, -1, 1][rng.below(5) as usize] };
        let mut ops = vec![put(b"k", ValSel::Fit { total: (k * ps - 72 + d) as u32, seed: i as u8 })];
        if rng.chance(1, 3) {
            ops.push(put(b"z", ValSel::Fill { len: 30 + rng.below(300) as u32, seed: 1 }));
        }
        if rng.chance(1, 4) {
            ops.insert(0, Op::Delete { b: 0, k: KeySel::Lit(b"k".to_vec()) });
        }
        txs.push(TxSpec { kind: TxKind::Commit, ops });
    }
    HistoryCase { cfg: Cfg { pagesize: 1024, num_pages: if seed % 2 == 0 { 32 } else { 4 }, strict: false, populate: false }, fresh_handles: false, txs, dance: 0 }
}

/// Two commits of about two thousand 900-byte values each (about a thousand page runs) (then a small one): the number of
/// page writes per commit sweeps, over the shards and seeds, through 1024.
pub fn bigcommit_history(n: u16, seed: u64) -> HistoryCase {
    let mut txs = vec![TxSpec { kind: TxKind::Commit, ops: vec![Op::GetOrCreate { b: 0, k: KeySel::Lit(b"b".to_vec()), kk: 2 }] }];
    for round in 0..2u16 {
        let mut ops = Vec::new();
        let mut at = 0u16;
        while at < n {
            let m = (n - at).min(250) as u8;
            ops.push(Op::PutRun { b: 0, base: vec![b'v'], start: at, step: 1, n: m, klen: 0, vlen: 880 + 20 * round });
            at += m as u16;
        }
        txs.push(TxSpec { kind: TxKind::Commit, ops });
    }
    txs.push(TxSpec { kind: TxKind::Commit, ops: vec![Op::PutRun { b: 0, base: vec![b'v'], start: 3, step: 1, n: 5, klen: 0, vlen: 40 }] });
    HistoryCase { cfg: Cfg { pagesize: 1024, num_pages: if seed % 2 == 0 { 4 } else { 4000 }, strict: false, populate: false }, fresh_handles: false, txs, dance: 0 }
}

/// A bucket of about 4300 page-sized values is filled and then deleted: the free list written by
/// the deleting commit (and by the small commits after it) has more than 4091 entries, i.e. its
/// page image exceeds 32 KiB.
pub fn huge_freelist_history(n: u16) -> HistoryCase {
    let mut fill = vec![Op::GetOrCreate { b: 0, k: KeySel::Lit(b"big".to_vec()), kk: 2 }, Op::GetOrCreate { b: 0, k: KeySel::Lit(b"small".to_vec()), kk: 2 }];
    let mut at = 0u16;
    while at < n {
        let m = (n - at).min(250) as u8;
        fill.push(Op::PutRun { b: 0, base: vec![b'v'], start: at, step: 1, n: m, klen: 0, vlen: 1000 });
        at += m as u16;
    }
    let mut txs = vec![
        TxSpec { kind: TxKind::Commit, ops: fill },
        TxSpec { kind: TxKind::Commit, ops: vec![Op::DeleteBucket { b: 0, k: KeySel::Lit(b"big".to_vec()), kk: 2 }] },
    ];
    for i in 0..2u16 {
        txs.push(TxSpec { kind: TxKind::Commit, ops: vec![Op::PutRun { b: 0, base: vec![b's'], start: i * 3, step: 1, n: 3, klen: 0, vlen: 100 }] });
    }
    HistoryCase { cfg: Cfg { pagesize: 1024, num_pages: 32, strict: false, populate: false }, fresh_handles: false, txs, dance: 0 }
}

pub fn crash_history(seed: u64) -> HistoryCase {
    if seed % 8 == 5 {
        return big_freelist_history(seed);
    }
    if seed % 8 == 6 || seed % 16 == 3 {
        return exactfit_history(seed);
    }
    let w = OpWeights { get: 1, read_misc: 1, seek_range: 1, bucket_delete: 3, delete_run: 6, ..OpWeights::default() };
    let strat = history(7, 16, w, (10, 1, 1, 1));
    let mut h = gen_one(&strat, seed);
    h.cfg = match seed % 5 {
        0 => Cfg { pagesize: 1024, num_pages: 4, strict: false, populate: false },
        1 => Cfg { pagesize: 4096, num_pages: 4, strict: false, populate: false },
        _ => Cfg { pagesize: 1024, num_pages: 32, strict: false, populate: false },
    };
    h
}

fn shard(ctx: &ShardCtx, known: &Known) -> ShardOut {
    let mut out = ShardOut::default();
    let n = ctx.tier.pick(30, 400);
    let (ex, rnd) = ctx.tier.pick((10, 24), (14, 200));
    let mut all_ex = true;
    for i in 0..n {
        let seed = mix(ctx.shard_seed("c02"), i as u64);
        // the last histories of each shard are commits of about a thousand pages; over all shards
        // the page-write counts of these commits sweep through 1024
        let nbig = ctx.tier.pick(4, 8);
        let history = if i + nbig >= n {
            let j = (ctx.shard * nbig + (i + nbig - n)) as u16;
            bigcommit_history(1870 + j, seed)
        } else if i == 0 && ctx.shard % 8 == 5 {
            // two shards: a free list of more than 4091 entries (page image above 32 KiB)
            huge_freelist_history(4250 + 60 * (ctx.shard as u16 / 8))
        } else {
            crash_history(seed)
        };
        let dance = if seed % 4 == 2 { 1 } else if seed % 16 == 7 { 2 } else { 0 };
        // 1 history in 8 turns into a file written by a release <= 0.10 half-way: a Reopen is
        // inserted after the k-th transaction and both headers are re-encoded there
        let mut history = history;
        let legacy_at = if seed % 8 == 1 && history.txs.len() >= 3 {
            let k = 1 + (seed / 8 % (history.txs.len() as u64 - 2)) as usize;
            history.txs.insert(k, TxSpec { kind: TxKind::Reopen, ops: vec![] });
            Some(k)
        } else {
            None
        };
        let case = C02Case { history, dance, legacy_at };
        note_current(ctx, "c02", &case);
        match analyse(&case.history, case.dance, case.legacy_at, &ctx.scratch, seed, ex, rnd) {
            Ok(a) => {
                out.evaluations += a.images;
                for h in &a.nontrivial_hashes {
                    if out.nontrivial.len() < 400_000 {
                        out.nontrivial.insert(mix(*h, seed));
                    }
                }
                if std::env::var("JV_C02_DEBUG").is_ok() && i + ctx.tier.pick(4, 8) >= n {
                    eprintln!("C02-DEBUG shard {} i {} groups {} max_group {}", ctx.shard, i, a.groups, a.max_group);
                }
                out.class_n("commits analysed", a.commits);
                if case.legacy_at.is_some() {
                    out.class_n("commits analysed on a file converted to the legacy header format half-way", a.commits);
                }
                if case.dance != 0 {
                    out.class_n("commits analysed with a short-lived reader around the writer", a.commits);
                }
                out.class_n("write groups", a.groups);
                out.class_n("write groups enumerated exhaustively", a.exhaustive_groups);
                out.class_n("write groups with a file-size change", a.size_change_groups);
                out.class_n("duplicate images skipped", a.deduped);
                if a.groups != a.exhaustive_groups {
                    all_ex = false;
                }
                for s in a.samples {
                    out.sample(serde_json::json!(s), 4);
                }
            }
            Err(f) => {
                record_case(ctx, &mut out, known, "c02", &case, CaseVerdict { failure: Some(f), nontrivial: false, classes: vec![] });
                if out.failures.len() >= 3 {
                    break;
                }
            }
        }
    }
    clear_current(ctx);
    out.exhaustive = Some(all_ex);
    out
}

pub fn replay(fr: &FailRec, dir: &std::path::Path) -> Option<Failure> {
    let case: C02Case = match serde_json::from_value(fr.case.clone()) {
        Ok(c) => c,
        Err(e) => return Some(Failure::new("harness_panic", format!("bad C02 case: {}", e))),
    };
    analyse(&case.history, case.dance, case.legacy_at, dir, 1, 10, 24).err()
}
