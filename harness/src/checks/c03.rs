//! C03 — a read-only transaction sees one frozen snapshot for its whole life (single thread).

use super::CheckDef;
use crate::fsck;
use crate::interp::*;
use crate::model::MBucket;
use crate::ops::*;
use crate::panics::catch;
use crate::runner::*;
use jammdb::Tx;
use proptest::prelude::*;
use serde::{Deserialize, Serialize};

pub fn def() -> CheckDef {
    CheckDef {
        meta: CheckMeta {
            id: "C03",
            level: "exploration",
            rule: "generated single-threaded step sequences over {open reader (<= 4 open), close reader j (any order; by drop, or by a commit() call that must be refused), writer commit(ops), writer rollback(ops), each optionally with 1-2 readers begun while the writer is open, reopen (only with no reader open)} (plus sequences that start with one reader held across 30-70 small commits, and sequences with 17-24 readers open at once of which all but 1-4 are closed again before page-draining bursts) with update/delete-heavy operations on a bounded key set at page size 1024, so pages are freed and reused at every commit, and bursts that rewrite ~40 page-sized values so that the free set is drained and any page released too early is overwritten at once. Each reader keeps the model clone taken when it began; after EVERY step every open reader is dumped in full and compared with its clone (a panic is a failure); commits are also checked with the independent parser. The file is pre-sized so that no commit grows it while a reader is open on the same thread (documented self-deadlock); cases that would come near the limit are discarded and counted. Non-trivial = a reader that stayed open across >= 2 commits of which at least one reused previously freed pages, while another reader of a different age was open. Distinct = hash of the case.",
            assumptions: &[
                "one thread holds several read transactions and at most one write transaction at a time; the writer never needs to grow the file (pre-sized), which is the documented precondition for doing this on one thread",
            ],
        },
        shard,
        nshards: NSHARDS,
    }
}

#[derive(Serialize, Deserialize, Clone, Debug, PartialEq, Eq, Hash)]
pub enum Step {
    OpenReader,
    CloseReader(u8),
    /// the reader is ended by calling commit() on it (must return the read-only error)
    CommitReader(u8),
    Write {
        commit: bool,
        ops: Vec<Op>,
        /// readers opened while this write transaction is open (after its operations, before
        /// its commit or rollback); their snapshot is the state before the transaction
        #[serde(default)]
        inside: u8,
    },
    Reopen,
}

#[derive(Serialize, Deserialize, Clone, Debug, PartialEq, Eq, Hash)]
pub struct C03Case {
    pub num_pages: usize,
    pub setup: Vec<Op>,
    pub steps: Vec<Step>,
    /// most readers open at once (0 = the default of 4)
    #[serde(default)]
    pub max_open: usize,
}

fn small_ops(max: usize) -> impl Strategy<Value = Vec<Op>> {
    let b = || any::<u16>();
    let o = prop_oneof![
        8 => (b(), any::<u16>(), prop_oneof![Just(ValSel::Lit(vec![1,2,3])), (0u32..900, any::<u8>()).prop_map(|(len, seed)| ValSel::Fill{len, seed})], 0u8..11, 0u8..11)
            .prop_map(|(b, i, v, kk, vk)| Op::Put { b, k: KeySel::ExKv(i), v, kk, vk }),
        3 => (b(), small_key(), (0u32..600, any::<u8>()), 0u8..11).prop_map(|(b, k, (len, seed), kk)| Op::Put { b, k: KeySel::Lit(k), v: ValSel::Fill{len, seed}, kk, vk: 2 }),
        5 => (b(), any::<u16>()).prop_map(|(b, i)| Op::Delete { b, k: KeySel::ExKv(i) }),
        4 => (b(), any::<u16>(), 1u8..12).prop_map(|(b, start, n)| Op::DeleteRun { b, start, n }),
        4 => (b(), 0u16..30, 1u8..12, prop::sample::select(vec![0u8, 8, 100]), prop::sample::select(vec![0u16, 40, 200, 400]))
            .prop_map(|(b, start, n, klen, vlen)| Op::PutRun { b, base: vec![], start, step: 1, n, klen, vlen }),
        1 => (b(), small_key()).prop_map(|(b, k)| Op::GetOrCreate { b, k: KeySel::Lit(k), kk: 2 }),
        1 => (b(), any::<u16>()).prop_map(|(b, i)| Op::DeleteBucket { b, k: KeySel::ExBucket(i), kk: 2 }),
    ];
    prop::collection::vec(o, 1..max)
}

pub fn strategy(max_steps: usize, num_pages: usize) -> impl Strategy<Value = C03Case> {
    // a burst rewrites ~40 page-sized values: it drains the free set, so that a page released too
    // early is overwritten at once instead of sitting unused behind lower free page ids
    let inside = || prop_oneof![7 => Just(0u8), 2 => Just(1u8), 1 => Just(2u8)];
    let burst = (0u16..3, any::<u16>(), inside()).prop_map(|(slot, b, inside)| Step::Write {
        commit: true,
        ops: vec![Op::PutRun { b, base: vec![b'z'], start: slot * 20, step: 1, n: 39, klen: 0, vlen: 1000 }],
        inside,
    });
    let step = prop_oneof![
        3 => Just(Step::OpenReader),
        2 => any::<u8>().prop_map(Step::CloseReader),
        1 => any::<u8>().prop_map(Step::CommitReader),
        3 => burst,
        6 => (small_ops(12), inside()).prop_map(|(ops, inside)| Step::Write { commit: true, ops, inside }),
        1 => (small_ops(12), inside()).prop_map(|(ops, inside)| Step::Write { commit: false, ops, inside }),
        1 => Just(Step::Reopen),
    ];
    (small_ops(10), prop::collection::vec(step, 2..max_steps)).prop_map(move |(mut setup, steps)| {
        let mut s = vec![
            Op::GetOrCreate { b: 0, k: KeySel::Lit(b"a".to_vec()), kk: 2 },
            Op::GetOrCreate { b: 0, k: KeySel::Lit(b"b".to_vec()), kk: 2 },
            Op::PutRun { b: 0, base: vec![], start: 0, step: 1, n: 20, klen: 0, vlen: 200 },
            Op::PutRun { b: 40000, base: vec![], start: 0, step: 1, n: 12, klen: 100, vlen: 40 },
        ];
        s.append(&mut setup);
        C03Case { num_pages, setup: s, steps, max_open: 0 }
    })
}

/// A reader held open across a long run of small commits (30-70), then the usual random steps:
/// whatever the free list does with a long backlog of pending entries, the old reader and any
/// younger one keep their snapshots.
pub fn long_hold_strategy(max_tail: usize, num_pages: usize) -> impl Strategy<Value = C03Case> {
    (30usize..70, prop::collection::vec(small_ops(4), 70), strategy(max_tail, num_pages)).prop_map(|(n, mut opss, mut case)| {
        let mut steps = vec![Step::OpenReader];
        for ops in opss.drain(..n) {
            steps.push(Step::Write { commit: true, ops, inside: 0 });
        }
        steps.push(Step::OpenReader);
        steps.append(&mut case.steps);
        case.steps = steps;
        case
    })
}

/// Many readers at once: 17-24 are opened (a few commits in between, several on the same
/// snapshot), most of them closed again oldest first or in seeded order, then bursts that drain
/// the free set; the survivors keep their snapshots.
pub fn many_readers_strategy(num_pages: usize) -> impl Strategy<Value = C03Case> {
    (17usize..25, any::<u64>(), prop::collection::vec(small_ops(5), 8), strategy(10, num_pages)).prop_map(|(r, seed, opss, mut case)| {
        let mut rng = Rng(seed);
        let mut steps = Vec::new();
        let mut wi = 0;
        for i in 0..r {
            steps.push(Step::OpenReader);
            if rng.chance(1, 3) && wi < opss.len() {
                steps.push(Step::Write { commit: true, ops: opss[wi].clone(), inside: if i % 5 == 4 { 1 } else { 0 } });
                wi += 1;
            }
        }
        // close all but 1-4 survivors: oldest first (index 0) or at seeded positions
        let survivors = 1 + rng.below(4) as usize;
        let oldest_first = rng.chance(1, 2);
        for _ in 0..r.saturating_sub(survivors) {
            steps.push(Step::CloseReader(if oldest_first { 0 } else { rng.below(200) as u8 }));
        }
        for slot in 0..3u16 {
            steps.push(Step::Write { commit: true, ops: vec![Op::PutRun { b: (seed >> 8) as u16, base: vec![b'z'], start: slot * 20, step: 1, n: 39, klen: 0, vlen: 1000 }], inside: 0 });
            if wi < opss.len() {
                steps.push(Step::Write { commit: true, ops: opss[wi].clone(), inside: 0 });
                wi += 1;
            }
        }
        steps.append(&mut case.steps);
        case.steps = steps;
        case.max_open = 26;
        case
    })
}

#[derive(Default)]
pub struct C03Stats {
    pub nontrivial: bool,
    pub readers_opened: u64,
    pub max_open: usize,
    pub commits: u64,
    pub reuse_commits: u64,
    pub dumps: u64,
    pub discarded: bool,
    pub reopen: u64,
    pub begun_inside_writer: u64,
    pub readers_committed: u64,
}

fn read_prefix(path: &std::path::Path, ps: u64) -> Result<Vec<u8>, Failure> {
    use std::io::Read;
    let mut f = std::fs::File::open(path).map_err(|e| Failure::new("io", e.to_string()))?;
    let mut head = vec![0u8; 2 * ps as usize];
    f.read_exact(&mut head).map_err(|e| Failure::new("io", e.to_string()))?;
    let (_, slots) = fsck::choose_meta(&head, ps);
    let hw = slots.iter().flatten().map(|m| m.num_pages).max().unwrap_or(4).min(1 << 24);
    let mut rest = vec![0u8; (hw.saturating_sub(2) * ps) as usize];
    f.read_exact(&mut rest).map_err(|e| Failure::new("io", e.to_string()))?;
    head.extend(rest);
    Ok(head)
}

struct Reader<'a> {
    tx: Tx<'a>,
    snap: MBucket,
    commits_seen: u64,
    reuse_seen: u64,
    born: u64,
    overlapped_other_age: bool,
}

pub fn run_case(case: &C03Case, path: &std::path::Path, st: &mut C03Stats) -> Result<(), Failure> {
    let _ = std::fs::remove_file(path);
    let cfg = Cfg { pagesize: 1024, num_pages: case.num_pages, strict: false, populate: false };
    let mut opts = RunOpts::standard(path.to_path_buf());
    opts.fsck_after_commit = false; // done here on the prefix only (the file is large)
    opts.dbcheck_after_commit = false;
    let r = catch(|| -> Result<(), Failure> {
        let mut model = MBucket::default();
        let mut db = open_db(&cfg, path)?;
        let mut cs = CaseStats::default();
        // setup
        {
            let mut work = model.clone();
            let spec = TxSpec { kind: TxKind::Commit, ops: case.setup.clone() };
            let mut at = None;
            run_tx(&db, &spec, false, &mut work, &opts, &mut cs, &mut at, None).map_err(|f| f.at(0, at))?;
            model = work;
        }
        let mut prev_free: Vec<u64> = Vec::new();
        let mut step_i = 0usize;
        let mut rest = &case.steps[..];
        // the db handle is re-created on Reopen, so readers live inside this inner loop
        loop {
            let mut reopen = false;
            {
            let mut readers: Vec<Reader> = Vec::new();
            let dbr = &db;
            while let Some((step, tail)) = rest.split_first() {
                step_i += 1;
                match step {
                    Step::OpenReader => {
                        if readers.len() < (if case.max_open == 0 { 4 } else { case.max_open }) {
                            let tx = dbr.tx(false).map_err(|e| Failure::new("tx_err", e.to_string()).at(step_i, None))?;
                            st.readers_opened += 1;
                            let other_age = readers.iter().any(|r| r.born != st.commits);
                            for r in readers.iter_mut() {
                                if r.born != st.commits {
                                    r.overlapped_other_age = true;
                                }
                            }
                            readers.push(Reader { tx, snap: model.clone(), commits_seen: 0, reuse_seen: 0, born: st.commits, overlapped_other_age: other_age });
                            st.max_open = st.max_open.max(readers.len());
                        }
                    }
                    Step::CloseReader(j) => {
                        if !readers.is_empty() {
                            let i = (*j as usize * readers.len()) >> 8;
                            let r = readers.remove(i);
                            if r.commits_seen >= 2 && r.reuse_seen >= 1 && r.overlapped_other_age {
                                st.nontrivial = true;
                            }
                            drop(r);
                        }
                    }
                    Step::CommitReader(j) => {
                        if !readers.is_empty() {
                            let i = (*j as usize * readers.len()) >> 8;
                            let r = readers.remove(i);
                            if r.commits_seen >= 2 && r.reuse_seen >= 1 && r.overlapped_other_age {
                                st.nontrivial = true;
                            }
                            st.readers_committed += 1;
                            match r.tx.commit() {
                                Err(jammdb::Error::ReadOnlyTx) => {}
                                Err(e) => return Err(Failure::new("ret", format!("commit on a read-only transaction: expected ReadOnlyTx got {}", e)).at(step_i, None)),
                                Ok(()) => return Err(Failure::new("ret", "commit on a read-only transaction returned Ok".into()).at(step_i, None)),
                            }
                        }
                    }
                    Step::Write { commit, ops, inside } => {
                        let mut work = model.clone();
                        let spec = TxSpec { kind: if *commit { TxKind::Commit } else { TxKind::Rollback }, ops: ops.clone() };
                        let mut at = None;
                        // readers that begin while the writer is open: they see the state before it
                        let before = model.clone();
                        let born_before = st.commits;
                        let room = (if case.max_open == 0 { 4usize } else { case.max_open }).saturating_sub(readers.len());
                        let mut begun: Vec<Tx> = Vec::new();
                        let mut hook = |_: &mut TxCtx, _: &MBucket| -> Result<(), Failure> {
                            for _ in 0..(*inside as usize).min(room) {
                                begun.push(dbr.tx(false).map_err(|e| Failure::new("tx_err", e.to_string()))?);
                            }
                            Ok(())
                        };
                        let committed = run_tx(dbr, &spec, false, &mut work, &opts, &mut cs, &mut at, if *inside > 0 { Some(&mut hook) } else { None }).map_err(|f| f.at(step_i, at))?;
                        for tx in begun {
                            st.readers_opened += 1;
                            st.begun_inside_writer += 1;
                            let other_age = readers.iter().any(|r| r.born != born_before);
                            for r in readers.iter_mut() {
                                if r.born != born_before {
                                    r.overlapped_other_age = true;
                                }
                            }
                            readers.push(Reader { tx, snap: before.clone(), commits_seen: 0, reuse_seen: 0, born: born_before, overlapped_other_age: other_age });
                            st.max_open = st.max_open.max(readers.len());
                        }
                        if committed {
                            model = work;
                            st.commits += 1;
                            let bytes = read_prefix(path, 1024)?;
                            let rep = fsck::fsck(&bytes, 1024);
                            if !rep.ok() {
                                return Err(Failure::new("fsck", format!("after commit at step {}: {}", step_i, rep.errors.join("; "))).at(step_i, None));
                            }
                            if let Some(df) = crate::model::diff(&model, rep.dump.as_ref().unwrap(), &mut vec![], true) {
                                return Err(Failure::new("fsck_dump", format!("after commit at step {}: {}", step_i, df)).at(step_i, None));
                            }
                            let reused = rep.stats.used_pages.iter().any(|p| prev_free.binary_search(p).is_ok());
                            if reused {
                                st.reuse_commits += 1;
                            }
                            for r in readers.iter_mut() {
                                r.commits_seen += 1;
                                if reused {
                                    r.reuse_seen += 1;
                                }
                            }
                            prev_free = rep.stats.free_list.clone();
                            if rep.stats.num_pages + 3000 > case.num_pages as u64 {
                                st.discarded = true;
                                return Ok(());
                            }
                        }
                    }
                    Step::Reopen => {
                        if readers.is_empty() {
                            reopen = true;
                            rest = tail;
                            break;
                        }
                    }
                }
                rest = tail;
                // every open reader must still see exactly its snapshot
                for (ri, r) in readers.iter().enumerate() {
                    let d = dump_tx(&r.tx).map_err(|s| Failure::new("dump", format!("reader {} (begun after commit {}) at step {}: {}", ri, r.born, step_i, s)).at(step_i, None))?;
                    st.dumps += 1;
                    compare_dump(&r.snap, &d, &format!("reader {} (begun after commit {}, {} commits since) at step {}", ri, r.born, r.commits_seen, step_i)).map_err(|f| f.at(step_i, None))?;
                }
            }
            for r in readers.drain(..) {
                if r.commits_seen >= 2 && r.reuse_seen >= 1 && r.overlapped_other_age {
                    st.nontrivial = true;
                }
            }
            }
            if reopen {
                drop(db);
                db = open_db(&cfg, path)?;
                st.reopen += 1;
                let d = dump_db(&db)?;
                compare_dump(&model, &d, "after reopen")?;
                continue;
            }
            break;
        }
        let d = dump_db(&db)?;
        compare_dump(&model, &d, "at the end")?;
        Ok(())
    });
    let _ = std::fs::remove_file(path);
    match r {
        Err(p) => Err(Failure::from_panic(p)),
        Ok(r) => r,
    }
}

fn shard(ctx: &ShardCtx, known: &Known) -> ShardOut {
    let mut out = ShardOut::default();
    let path = ctx.db_path("c03.db");
    let n = ctx.tier.pick(3000, 18000);
    let (steps, pages) = ctx.tier.pick((40, 20000), (120, 60000));
    let discarded = std::cell::Cell::new(0u64);
    let dumps = std::cell::Cell::new(0u64);
    drive(ctx, &mut out, known, "c03", strategy(steps, pages), n, "c03", None, |case| {
        note_current(ctx, "c03", case);
        let mut st = C03Stats::default();
        let r = run_case(case, &path, &mut st);
        dumps.set(dumps.get() + st.dumps);
        if st.discarded {
            discarded.set(discarded.get() + 1);
        }
        let mut classes = vec![format!("max open readers {}", st.max_open)];
        if st.reuse_commits > 0 {
            classes.push("commit reused freed pages".into());
        }
        if st.begun_inside_writer > 0 {
            classes.push("reader begun while a write transaction was open".into());
        }
        if st.readers_committed > 0 {
            classes.push("reader ended by a (refused) commit() call".into());
        }
        if st.reopen > 0 {
            classes.push("reopen".into());
        }
        CaseVerdict { nontrivial: st.nontrivial && !st.discarded, classes, failure: r.err() }
    });
    // long holds: one reader across 30-70 commits before anything else happens
    drive(ctx, &mut out, known, "c03", long_hold_strategy(steps / 2, pages), n / 12, "c03-long", None, |case| {
        note_current(ctx, "c03", case);
        let mut st = C03Stats::default();
        let r = run_case(case, &path, &mut st);
        dumps.set(dumps.get() + st.dumps);
        if st.discarded {
            discarded.set(discarded.get() + 1);
        }
        CaseVerdict { nontrivial: st.nontrivial && !st.discarded, classes: vec!["a reader held across 30-70 commits".into(), format!("max open readers {}", st.max_open)], failure: r.err() }
    });
    // many readers at once (17-24), most of them closed again, then page reuse
    drive(ctx, &mut out, known, "c03", many_readers_strategy(pages), n / 12, "c03-many", None, |case| {
        note_current(ctx, "c03", case);
        let mut st = C03Stats::default();
        let r = run_case(case, &path, &mut st);
        dumps.set(dumps.get() + st.dumps);
        if st.discarded {
            discarded.set(discarded.get() + 1);
        }
        CaseVerdict { nontrivial: st.nontrivial && !st.discarded, classes: vec!["17-24 readers open at once".into(), format!("max open readers {}", st.max_open.min(17))], failure: r.err() }
    });
    clear_current(ctx);
    out.excluded = discarded.get();
    out.extra.insert("reader_dumps_compared".into(), serde_json::json!(dumps.get()));
    out
}

pub fn replay(fr: &FailRec, dir: &std::path::Path) -> Option<Failure> {
    let case: C03Case = match serde_json::from_value(fr.case.clone()) {
        Ok(c) => c,
        Err(e) => return Some(Failure::new("harness_panic", format!("bad C03 case: {}", e))),
    };
    let mut st = C03Stats::default();
    run_case(&case, &dir.join("c03.db"), &mut st).err()
}
