//! C04 — snapshot isolation holds under every thread schedule.

use super::CheckDef;
use crate::interp::{dump_tx, Failure};
use crate::model::{diff, MBucket, MNode};
use crate::panics::catch;
use crate::runner::*;
use crate::sched::*;
use jammdb::{OpenOptions, DB};
use serde::{Deserialize, Serialize};
use std::path::{Path, PathBuf};
use std::sync::atomic::{AtomicUsize, Ordering};
use std::sync::{Arc, Mutex};

pub fn def() -> CheckDef {
    CheckDef {
        meta: CheckMeta {
            id: "C04",
            level: "exploration",
            rule: "scenarios of 1-2 reader threads against a writer thread that performs a chain of 2-4 commits on a prepared two-level bucket (commit i rewrites a variant-specific subset of keys with tag i plus a counter key, so every committed state is identifiable and pages are freed and reused piecemeal; file pre-sized, except that in 4 of the 16 scenarios it is cut to its high-water mark so that the chain's commits have to grow and remap it while readers come and go). The schedule is the generated input: real threads run one at a time under a controller that takes a decision at every instrumented yield point inside jammdb (transaction begin, after each lock, after the header read, after registration, commit phases, drop; in 4 of the 16 scenarios also before every lock acquisition, blocked or not) and between the harness's API calls. All schedules with at most p preemptions are enumerated depth-first by re-execution (p = 2 quick, 3 thorough, capped per scenario; 'exhaustive' is true only if every enumeration completed), then seeded random and PCT-style priority schedules. Oracle per reader: the dump taken right after tx(false) returns equals exactly one model state S_j; j >= number of commits whose commit() had returned before the reader called tx(false); every later dump (after each further yield) equals the first; no panic. Non-trivial = schedule with >= 1 preemption in which at least one commit completed during a reader's lifetime. Distinct = hash of the choice sequence (per scenario).",
            assumptions: &[
                "interleavings are explored at the instrumented yield points of this build (feature verif-hooks); data races inside a critical section without a yield point and weak-memory effects are out of reach",
                "a replayed prefix that meets a different enabled set is counted as diverged (inconclusive), not as a violation",
            ],
        },
        shard,
        nshards: NSHARDS,
    }
}

#[derive(Serialize, Deserialize, Clone, Debug, PartialEq, Eq, Hash)]
pub struct Scenario {
    pub readers: usize,
    pub commits: usize,
    /// key subset pattern / value size selector
    pub pattern: u8,
    pub holds: usize,
    /// the template file is cut to its high-water mark, so the chain's commits have to grow
    /// (and remap) the file while readers come and go
    #[serde(default)]
    pub grow: bool,
    /// every lock acquisition inside jammdb is a scheduling point of its own (not only blocked ones)
    #[serde(default)]
    pub lock_yield: bool,
}

#[derive(Serialize, Deserialize, Clone, Debug)]
pub struct C04Case {
    pub scenario: Scenario,
    pub plan: Vec<usize>,
    /// strategy after the plan: 0 no-preempt, 1 random(seed), 2 pct(seed)
    pub strategy: u8,
    pub seed: u64,
}

const NKEYS: usize = 24;

fn key(i: usize) -> Vec<u8> {
    format!("k{:02}", i).into_bytes()
}

fn val(sc: &Scenario, i: usize, tag: usize) -> Vec<u8> {
    let len = match sc.pattern % 3 {
        0 => 200,
        1 => 60 + (i % 5) * 90,
        _ => 420,
    };
    let mut v = format!("t{}-{}-", tag, i).into_bytes();
    while v.len() < len {
        v.push(b'a' + ((tag + i) % 26) as u8);
    }
    v
}

fn in_subset(sc: &Scenario, i: usize, commit: usize) -> bool {
    match sc.pattern / 3 % 3 {
        0 => (i * 7 + commit) % 3 == 0,
        1 => i % 2 == commit % 2,
        _ => i / 6 == commit % 4,
    }
}

/// Model states S_0..S_k.
pub fn states(sc: &Scenario) -> Vec<MBucket> {
    let mut d = MBucket::default();
    for i in 0..NKEYS {
        d.put(&key(i), &val(sc, i, 0)).unwrap();
    }
    d.put(b"ctr", b"0").unwrap();
    let mut root = MBucket::default();
    root.next_int = 1;
    root.entries.insert(b"d".to_vec(), MNode::Bucket(d));
    let mut out = vec![root.clone()];
    for c in 1..=sc.commits {
        let b = root.bucket_mut(&[b"d".to_vec()]).unwrap();
        for i in 0..NKEYS {
            if in_subset(sc, i, c) {
                b.put(&key(i), &val(sc, i, c)).unwrap();
            }
        }
        b.put(b"ctr", c.to_string().as_bytes()).unwrap();
        out.push(root.clone());
    }
    out
}

pub fn prepare_template(sc: &Scenario, path: &Path) -> Result<(), Failure> {
    let _ = std::fs::remove_file(path);
    catch(|| -> Result<(), String> {
        let db = OpenOptions::new().pagesize(1024).num_pages(400).open(path).map_err(|e| e.to_string())?;
        let tx = db.tx(true).map_err(|e| e.to_string())?;
        {
            let b = tx.create_bucket("d").map_err(|e| e.to_string())?;
            for i in 0..NKEYS {
                b.put(key(i), val(sc, i, 0)).map_err(|e| e.to_string())?;
            }
            b.put("ctr", "0").map_err(|e| e.to_string())?;
        }
        tx.commit().map_err(|e| e.to_string())?;
        // a second commit so that both headers carry real states and the free list is populated
        let tx = db.tx(true).map_err(|e| e.to_string())?;
        {
            let b = tx.get_bucket("d").map_err(|e| e.to_string())?;
            b.put("ctr", "0").map_err(|e| e.to_string())?;
        }
        tx.commit().map_err(|e| e.to_string())
    })
    .map_err(Failure::from_panic)?
    .map_err(|e| Failure::new("harness_panic", format!("template: {}", e)))?;
    if sc.grow {
        // exactly what a database created with num_pages = high-water mark looks like
        let bytes = std::fs::read(path).map_err(|e| Failure::new("io", e.to_string()))?;
        let (_, slots) = crate::fsck::choose_meta(&bytes, 1024);
        let hw = slots.iter().flatten().map(|m| m.num_pages).max().unwrap_or(0);
        if hw < 4 {
            return Err(Failure::new("harness_panic", "template: no valid header".into()));
        }
        let f = std::fs::OpenOptions::new().write(true).open(path).map_err(|e| Failure::new("io", e.to_string()))?;
        f.set_len(hw * 1024).map_err(|e| Failure::new("io", e.to_string()))?;
    }
    Ok(())
}

pub struct Shared {
    pub commits_done: AtomicUsize,
    pub failures: Mutex<Vec<String>>,
    pub overlap: AtomicUsize,
}

pub fn build_threads(sc: &Scenario, db: &DB, states: Arc<Vec<MBucket>>, sh: Arc<Shared>) -> Vec<ThreadFn> {
    let mut ts: Vec<ThreadFn> = Vec::new();
    // writer
    {
        let db = db.clone();
        let sc = sc.clone();
        let sh = sh.clone();
        ts.push(Box::new(move |ctx: ThreadCtx| {
            let r = catch(|| -> Result<(), String> {
                for c in 1..=sc.commits {
                    let tx = db.tx(true).map_err(|e| format!("writer tx(true): {}", e))?;
                    {
                        let b = tx.get_bucket("d").map_err(|e| e.to_string())?;
                        for i in 0..NKEYS {
                            if in_subset(&sc, i, c) {
                                b.put(key(i), val(&sc, i, c)).map_err(|e| e.to_string())?;
                            }
                        }
                        b.put("ctr", c.to_string()).map_err(|e| e.to_string())?;
                    }
                    ctx.yield_now("h:writer:before_commit");
                    tx.commit().map_err(|e| format!("commit {}: {}", c, e))?;
                    sh.commits_done.store(c, Ordering::SeqCst);
                    ctx.yield_now("h:writer:after_commit");
                }
                Ok(())
            });
            match r {
                Err(p) => {
                    sh.failures.lock().unwrap().push(format!("writer panicked: {} @ {} {}", p.msg, p.location, p.frame));
                    ctx.fail_fast();
                }
                Ok(Err(e)) => {
                    sh.failures.lock().unwrap().push(format!("writer: {}", e));
                    ctx.fail_fast();
                }
                Ok(Ok(())) => {}
            }
        }));
    }
    for r in 0..sc.readers {
        let db = db.clone();
        let sc = sc.clone();
        let sh = sh.clone();
        let states = states.clone();
        ts.push(Box::new(move |ctx: ThreadCtx| {
            let res = catch(|| -> Result<(), String> {
                ctx.yield_now("h:reader:start");
                let c0 = sh.commits_done.load(Ordering::SeqCst);
                let tx = db.tx(false).map_err(|e| format!("reader tx(false): {}", e))?;
                let d1 = dump_tx(&tx).map_err(|e| format!("reader {} first dump: {}", r, e))?;
                let j = states.iter().position(|s| diff(s, &d1, &mut vec![], false).is_none());
                let j = match j {
                    Some(j) => j,
                    None => {
                        let nearest = diff(&states[c0.min(states.len() - 1)], &d1, &mut vec![], false).unwrap_or_default();
                        return Err(format!("reader {} (begun after {} commits had returned) sees a state that is none of the committed states: vs S_{}: {}", r, c0, c0, nearest));
                    }
                };
                if j < c0 {
                    return Err(format!("reader {} began after commit {} had returned but sees the older state S_{}", r, c0, j));
                }
                for h in 0..sc.holds {
                    ctx.yield_now("h:reader:hold");
                    let d = dump_tx(&tx).map_err(|e| format!("reader {} dump {} while open: {}", r, h + 2, e))?;
                    if let Some(df) = diff(&d1, &d, &mut vec![], false) {
                        return Err(format!("reader {} saw S_{} at first, but its view changed while it was open (dump {}): {}", r, j, h + 2, df));
                    }
                }
                if sh.commits_done.load(Ordering::SeqCst) > c0 {
                    sh.overlap.fetch_add(1, Ordering::SeqCst);
                }
                drop(tx);
                Ok(())
            });
            match res {
                Err(p) => {
                    sh.failures.lock().unwrap().push(format!("reader {} panicked: {} @ {} {}", r, p.msg, p.location, p.frame));
                    ctx.fail_fast();
                }
                Ok(Err(e)) => {
                    sh.failures.lock().unwrap().push(e);
                    ctx.fail_fast();
                }
                Ok(Ok(())) => {}
            }
        }));
    }
    ts
}

pub struct RunOut {
    pub exec: ExecResult,
    pub failures: Vec<String>,
    pub overlap: usize,
}

pub fn run_once(sc: &Scenario, template: &Path, work: &Path, states: &Arc<Vec<MBucket>>, plan: &[usize], strategy: Strategy) -> Result<RunOut, Failure> {
    std::fs::copy(template, work).map_err(|e| Failure::new("io", e.to_string()))?;
    let db = catch(|| OpenOptions::new().pagesize(1024).open(work))
        .map_err(Failure::from_panic)?
        .map_err(|e| Failure::new("open_err", e.to_string()))?;
    let sh = Arc::new(Shared { commits_done: AtomicUsize::new(0), failures: Mutex::new(vec![]), overlap: AtomicUsize::new(0) });
    let threads = build_threads(sc, &db, states.clone(), sh.clone());
    let exec = execute_opts(threads, plan, strategy, 5000, sc.lock_yield);
    let failures = sh.failures.lock().unwrap().clone();
    let overlap = sh.overlap.load(Ordering::SeqCst);
    if exec.leaked == 0 {
        drop(db);
    } else {
        std::mem::forget(db);
    }
    Ok(RunOut { exec, failures, overlap })
}

pub fn strategy_of(case: &C04Case) -> Strategy {
    match case.strategy {
        1 => Strategy::Random(case.seed),
        2 => Strategy::Pct { seed: case.seed, depth: 3, est_len: 80 },
        _ => Strategy::NoPreempt,
    }
}

pub fn verdict_of(prop: &str, out: &RunOut) -> (Option<Failure>, Option<String>) {
    if let Some(f) = out.failures.first() {
        let kind = if f.contains("panicked") { "panic" } else { "isolation" };
        return (Some(Failure::new(kind, f.clone())), None);
    }
    match &out.exec.outcome {
        Outcome::Completed => (None, None),
        Outcome::Deadlock(d) => {
            if prop == "C09" {
                (Some(Failure::new("deadlock", format!("all live threads blocked: {}", d))), None)
            } else {
                (None, Some(format!("deadlock (reported by C09): {}", d)))
            }
        }
        Outcome::Diverged(d) => (None, Some(format!("diverged: {}", d))),
        Outcome::StepLimit => {
            if prop == "C09" {
                (Some(Failure::new("no_progress", "execution exceeded the step bound".into())), None)
            } else {
                (None, Some("step limit".into()))
            }
        }
        Outcome::Stuck(s) => {
            if out.exec.leaked > 0 && prop == "C09" {
                (Some(Failure::new("deadlock", format!("threads stayed blocked even when free-running: {} ({:?})", s, out.exec.statuses))), None)
            } else {
                (None, Some(format!("stuck: {}", s)))
            }
        }
    }
}

pub fn npreempt(trace: &[Decision]) -> usize {
    trace.iter().filter(|d| d.prev_enabled.is_some() && d.prev_enabled != Some(d.chosen)).count()
}

/// Executes one schedule, applies the oracles, records the outcome. Returns (trace, passed).
pub fn run_and_record(
    prop: &str,
    ctx: &ShardCtx,
    known: &Known,
    out: &mut ShardOut,
    sc: &Scenario,
    plan: &[usize],
    strategy_id: u8,
    seed: u64,
    exec: &dyn Fn(&[usize], Strategy) -> Result<RunOut, Failure>,
) -> (Vec<Decision>, bool) {
    let strat = strategy_of(&C04Case { scenario: sc.clone(), plan: vec![], strategy: strategy_id, seed });
    let kind = if prop == "C09" { "c09" } else { "c04" };
    match exec(plan, strat) {
        Err(f) => {
            let case = C04Case { scenario: sc.clone(), plan: plan.to_vec(), strategy: strategy_id, seed };
            record_case(ctx, out, known, kind, &case, CaseVerdict { failure: Some(f), nontrivial: false, classes: vec![] });
            (vec![], false)
        }
        Ok(ro) => {
            let (fail, inconc) = verdict_of(prop, &ro);
            let pre = npreempt(&ro.exec.trace);
            let nt = pre >= 1 && ro.overlap >= 1;
            let full: Vec<usize> = ro.exec.trace.iter().map(|d| d.chosen).collect();
            let mut classes = vec![format!("{} preemption(s)", pre.min(4))];
            if sc.grow {
                classes.push(if prop == "C09" { "database starts with a free list of several pages".to_string() } else { "commits grow and remap the file".to_string() });
            }
            if sc.lock_yield {
                classes.push("every lock acquisition is a scheduling point".to_string());
            }
            if ro.overlap >= 1 {
                classes.push(if prop == "C09" { "writers contended / reader during resize".to_string() } else { "reader lifetime overlapped a commit".to_string() });
            }
            if !ro.exec.blocked_log.is_empty() {
                classes.push("a thread blocked on a lock".into());
            }
            if let Some(i) = inconc {
                out.class(&format!("inconclusive: {}", i.split(':').next().unwrap_or("")));
                if out.inconclusive.len() < 5 {
                    out.inconclusive.push(i);
                }
            }
            let is_fail = fail.is_some();
            let case_full = C04Case { scenario: sc.clone(), plan: full, strategy: 0, seed };
            if is_fail {
                record_case(ctx, out, known, kind, &case_full, CaseVerdict { failure: fail, nontrivial: false, classes });
            } else {
                out.evaluations += 1;
                for c in &classes {
                    out.class(c);
                }
                if nt {
                    out.nontrivial.insert(hash_json(&case_full));
                    if out.samples.len() < 2 {
                        out.samples.push(serde_json::to_value(&case_full).unwrap());
                    }
                }
            }
            (ro.exec.trace, !is_fail)
        }
    }
}

fn shard(ctx: &ShardCtx, known: &Known) -> ShardOut {
    let mut out = ShardOut::default();
    let sc = Scenario { readers: 1 + (ctx.shard / 8) % 2, commits: 2 + ctx.shard % 3, pattern: (ctx.shard % 9) as u8, holds: 2, grow: ctx.shard % 4 == 3, lock_yield: ctx.shard % 8 == 7 || ctx.shard % 8 == 2 };
    let template = ctx.db_path("c04.template.db");
    let work = ctx.db_path("c04.db");
    if let Err(f) = prepare_template(&sc, &template) {
        out.inconclusive.push(f.line());
        return out;
    }
    let st = Arc::new(states(&sc));
    let exec = |plan: &[usize], strat: Strategy| run_once(&sc, &template, &work, &st, plan, strat);
    let bound = ctx.tier.pick(2, 3);
    // executions that grow and remap an 8 MiB file cost several times more: smaller caps there
    let max_execs = if sc.grow { ctx.tier.pick(40_000, 150_000) } else { ctx.tier.pick(40_000, 600_000) };
    // 1. every schedule within the preemption bound (depth-first, by re-execution)
    let mut ok = true;
    let stats = dfs(bound, max_execs, |plan| {
        let (t, pass) = run_and_record("C04", ctx, known, &mut out, &sc, plan, 0, 0, &exec);
        ok = ok && pass;
        (t, pass)
    });
    out.exhaustive = Some(stats.complete);
    out.extra.insert("dfs".into(), serde_json::json!([{"scenario": sc, "bound": bound, "executions": stats.executions, "complete": stats.complete, "diverged": stats.diverged, "longest_trace": stats.max_trace}]));
    // 2. beyond the bound: seeded random and PCT-style schedules
    if ok {
        let n = if sc.grow { ctx.tier.pick(2000, 12000) } else { ctx.tier.pick(2000, 40000) };
        for i in 0..n {
            let seed = mix(ctx.shard_seed("c04-rand"), i as u64);
            let sid = if i % 2 == 0 { 1 } else { 2 };
            let (_, pass) = run_and_record("C04", ctx, known, &mut out, &sc, &[], sid, seed, &exec);
            if !pass {
                break;
            }
        }
    }
    let _ = std::fs::remove_file(&template);
    let _ = std::fs::remove_file(&work);
    out
}

pub fn replay(fr: &FailRec, dir: &std::path::Path) -> Option<Failure> {
    let case: C04Case = match serde_json::from_value(fr.case.clone()) {
        Ok(c) => c,
        Err(e) => return Some(Failure::new("harness_panic", format!("bad C04 case: {}", e))),
    };
    let template = dir.join("c04.template.db");
    let work = dir.join("c04.db");
    if let Err(f) = prepare_template(&case.scenario, &template) {
        return Some(f);
    }
    let st = Arc::new(states(&case.scenario));
    match run_once(&case.scenario, &template, &work, &st, &case.plan, strategy_of(&case)) {
        Err(f) => Some(f),
        Ok(ro) => verdict_of("C04", &ro).0,
    }
}
