//! C05 — every committed file is well-formed and accounts for each page exactly once.

use super::CheckDef;
use crate::gen::{mixed_history, storm_history};
use crate::interp::{run_history, CaseStats, RunOpts};
use crate::ops::*;
use crate::runner::*;

pub fn def() -> CheckDef {
    CheckDef {
        meta: CheckMeta {
            id: "C05",
            level: "exploration",
            rule: "after every commit of generated histories (C01 grammar, plus bucket-deletion storms: several delete_bucket at different nesting levels in one transaction incl. nested-then-ancestor and delete-recreate-delete; plus mixed buckets of 12-120 alternating key/value pairs and touched sub-buckets with delete runs; plus all deletion subsets of small multi-level trees; plus histories whose free list sweeps slowly up and down through the capacity of one and of two free-list pages, half of them with a close and reopen after every commit; plus 48 histories in which a bucket of N page-sized values is deleted under a short-lived reader (free-list run taken from the end of the file, N sweeping the id count through 123 and 251), followed by reopen and further commits) the raw file is parsed by the independent checker (exact page accounting over [2, high-water mark): reachable once / free-list page / free-list entry; ids, types, element bounds, key order within and across pages, separators bounding subtrees), DB::check() is run, and both must agree. Non-trivial = case with a bucket deletion at depth >= 1, or a merge / split / root collapse / overflow value / file growth observed between commits. Distinct = hash of the case.",
            assumptions: &[
                "the independent parser encodes the pinned layout (DESIGN.md 1.1) and was validated on healthy and corrupted files",
                "x86_64 Linux, tmpfs scratch",
            ],
        },
        shard,
        nshards: NSHARDS,
    }
}

fn nontrivial(s: &CaseStats) -> bool {
    s.commits >= 2 && (s.nested_bucket_delete || s.pages_decreased || s.split || s.height_decreased || s.overflow || s.growth)
}

fn verdict(case: &HistoryCase, opts: &RunOpts, commits: &std::cell::Cell<u64>) -> CaseVerdict {
    let o = run_history(case, opts);
    commits.set(commits.get() + o.stats.fsck_runs);
    let mut classes = super::c01::classes(&o.stats);
    if o.stats.bucket_deletes >= 3 {
        classes.push("storm: >=3 bucket deletions".into());
    }
    if case.cfg.strict {
        classes.push("strict mode".into());
    }
    CaseVerdict {
        nontrivial: nontrivial(&o.stats),
        classes,
        failure: o.result.err(),
    }
}

fn shard(ctx: &ShardCtx, known: &Known) -> ShardOut {
    let mut out = ShardOut::default();
    let opts = RunOpts::standard(ctx.db_path("c05.db"));
    let commits = std::cell::Cell::new(0u64);
    let ps = |c: &HistoryCase| super::c01::minimize_with(ctx, known, c, &opts);
    let n = ctx.tier.pick(1200, 20000);
    drive(ctx, &mut out, known, "history", storm_history(), n, "storm", Some(&ps), |case| {
        note_current(ctx, "history", case);
        verdict(case, &opts, &commits)
    });
    drive(ctx, &mut out, known, "history", mixed_history(), n / 2, "mixed", Some(&ps), |case| {
        note_current(ctx, "history", case);
        verdict(case, &opts, &commits)
    });
    let w = OpWeights { bucket_delete: 6, bucket_create: 6, delete_run: 8, ..OpWeights::default() };
    drive(ctx, &mut out, known, "history", history(9, 30, w, (10, 2, 1, 2)), n, "hist", Some(&ps), |case| {
        note_current(ctx, "history", case);
        verdict(case, &opts, &commits)
    });
    // free lists that sweep through the capacity of one and two free-list pages, both ways
    for i in 0..ctx.tier.pick(2, 8) {
        // low two bits of the seed: reopen after every commit (bit 0), long sweep up to a two-page free list (bit 1)
        let case = crate::gen::freelist_boundary_history((mix(ctx.shard_seed("flb"), i as u64) & !3) | ((i as u64 + 2 * (ctx.shard as u64 % 2)) & 3));
        note_current(ctx, "history", &case);
        let mut v = verdict(&case, &opts, &commits);
        v.classes.push("free list swept through its page-capacity boundaries".into());
        record_case(ctx, &mut out, known, "history", &case, v);
    }
    // free lists that exactly fill a run taken from the end of the file, then reopen + commits
    for i in 0..3u16 {
        let k = ctx.shard as u16 * 3 + i; // 0..47
        let n = if k < 24 { 102 + k } else { 230 + (k - 24) };
        let case = crate::gen::exactfit_freelist_history(n);
        note_current(ctx, "history", &case);
        let mut v = verdict(&case, &opts, &commits);
        v.classes.push("bucket of N pages deleted, free-list run from the end of the file, reopen".into());
        record_case(ctx, &mut out, known, "history", &case, v);
    }
    if ctx.tier == Tier::Thorough {
        super::c01::for_each_shape(ctx, |case| {
            note_current(ctx, "history", case);
            let v = verdict(case, &opts, &commits);
            record_case(ctx, &mut out, known, "history", case, v);
        });
    }
    clear_current(ctx);
    out.extra.insert("commits_checked".into(), serde_json::json!(commits.get()));
    out
}
