//! C06 — uncommitted and failed work leaves no trace.

use super::CheckDef;
use crate::gen::rollback_history;
use crate::interp::{run_history, CaseStats, RunOpts};
use crate::ops::*;
use crate::runner::*;
use proptest::prelude::*;

pub fn def() -> CheckDef {
    CheckDef {
        meta: CheckMeta {
            id: "C06",
            level: "exploration",
            rule: "generated histories biased to rollbacks of large write transactions (bucket deletes, overflow values, hundreds of puts), read-only transactions attempting every mutator at every nesting level, reopen cycles and failing calls; 1 in 20 histories at page size 5000 or 1032 from a 4-page file, so that the file has grown and its length is not a whole number of pages; 1 in 10 with strict mode or map-populate on. Oracles: (i) whole-file hash identical before/after a dropped write tx, a read tx, and close+reopen+read; (ii) every mutator on a reader returns ReadOnlyTx and later dumps are unchanged; (iii) after any call that returned an error the full in-tx dump equals the unchanged model; (iv) all later transactions return what the model (which never saw the abandoned work) returns and the independent parser's exact page accounting holds after every later commit. Non-trivial = rollback of a tx with >= 10 mutations or a bucket delete followed by a state-changing commit, or a read tx attempting >= 5 distinct mutator kinds. Distinct = hash of the case.",
            assumptions: &[
                "files are compared by a 64-bit hash of all bytes plus length",
                "byte-identical files across two separate runs are not asserted (page ids depend on HashMap order)",
            ],
        },
        shard,
        nshards: NSHARDS,
    }
}

fn nontrivial(s: &CaseStats) -> bool {
    (s.big_rollbacks >= 1 && s.rollback_then_commit) || s.ro_mutator_kinds.count_ones() >= 5
}

pub fn opts_for(path: std::path::PathBuf) -> RunOpts {
    let mut o = RunOpts::standard(path);
    o.bytes_unchanged = true;
    o.dump_after_error = true;
    o
}

fn shard(ctx: &ShardCtx, known: &Known) -> ShardOut {
    let mut out = ShardOut::default();
    let opts = opts_for(ctx.db_path("c06.db"));
    let ps = |c: &HistoryCase| super::c01::minimize_with(ctx, known, c, &opts);
    let n = ctx.tier.pick(1500, 30000);
    // 1 in 20 histories runs at a page size that does not divide the 8 MiB growth step, from a
    // 4-page file: the file grows at once and its length is not a whole number of pages
    let strat = (rollback_history(), 0u8..40).prop_map(|(mut h, r)| {
        if r == 0 {
            h.cfg = Cfg { pagesize: 5000, num_pages: 4, strict: false, populate: false };
        } else if r == 1 {
            h.cfg = Cfg { pagesize: 1032, num_pages: 4, strict: false, populate: false };
        } else if r == 2 || r == 3 {
            // opening (and everything else) with strict mode / map-populate must not write either
            h.cfg.strict = true;
        } else if r == 4 || r == 5 {
            h.cfg.populate = true;
        }
        h
    });
    drive(ctx, &mut out, known, "history_c06", strat, n, "rb", Some(&ps), |case| {
        note_current(ctx, "history_c06", case);
        let o = run_history(case, &opts);
        let mut classes = Vec::new();
        let s = &o.stats;
        if s.big_rollbacks > 0 {
            classes.push("big rollback".to_string());
        }
        if case.cfg.pagesize % 1024 != 0 && s.growth {
            classes.push("page size not dividing the growth step, file grown".to_string());
        }
        if s.rollback_then_commit {
            classes.push("rollback then commit".to_string());
        }
        if s.ro_mutator_kinds.count_ones() >= 5 {
            classes.push("reader tried >=5 mutator kinds".to_string());
        }
        if s.ro_mutator_kinds.count_ones() >= 8 {
            classes.push("reader tried >=8 mutator kinds".to_string());
        }
        if s.dumps_after_error > 0 {
            classes.push("erroring call then full in-tx dump".to_string());
        }
        if s.reopens > 1 {
            classes.push("reopen".to_string());
        }
        if s.growth {
            classes.push("file growth".to_string());
        }
        CaseVerdict { nontrivial: nontrivial(s), classes, failure: o.result.err() }
    });
    clear_current(ctx);
    out
}
