//! C06 — uncommitted and failed work leaves no trace.

use super::CheckDef;
use crate::gen::rollback_history;
use crate::interp::{run_history, CaseStats, Failure, RunOpts};
use crate::ops::*;
use crate::runner::*;
use proptest::prelude::*;

pub fn def() -> CheckDef {
    CheckDef {
        meta: CheckMeta {
            id: "C06",
            level: "exploration",
            rule: "generated histories biased to rollbacks of large write transactions (bucket deletes, overflow values, hundreds of puts), read-only transactions attempting every mutator at every nesting level, reopen cycles and failing calls; 1 in 20 histories at page size 5000 or 1032 from a 4-page file, so that the file has grown and its length is not a whole number of pages; 1 in 10 with strict mode or map-populate on. Oracles: (i) whole-file hash identical before/after a dropped write tx, a read tx, and close+reopen+read; (ii) every mutator on a reader returns ReadOnlyTx and later dumps are unchanged; (iii) after any call that returned an error the full in-tx dump equals the unchanged model; (iv) all later transactions return what the model (which never saw the abandoned work) returns and the independent parser's exact page accounting holds after every later commit; (v) erroring-call differential: the last transaction of a generated single-transaction case is run and committed twice on copies of the same start file, as generated and without the calls that returned an error (the bucket handles opened on their behalf are opened in both runs): both runs must replace exactly the same pages of the committed tree and yield the same contents. Non-trivial = rollback of a tx with >= 10 mutations or a bucket delete followed by a state-changing commit, or a read tx attempting >= 5 distinct mutator kinds, or a differential case with at least one failing call. Distinct = hash of the case.",
            assumptions: &[
                "files are compared by a 64-bit hash of all bytes plus length",
                "byte-identical files across two separate runs are not asserted (page ids depend on HashMap order)",
            ],
        },
        shard,
        nshards: NSHARDS,
    }
}

fn nontrivial(s: &CaseStats) -> bool {
    (s.big_rollbacks >= 1 && s.rollback_then_commit) || s.ro_mutator_kinds.count_ones() >= 5
}

pub fn opts_for(path: std::path::PathBuf) -> RunOpts {
    let mut o = RunOpts::standard(path);
    o.bytes_unchanged = true;
    o.dump_after_error = true;
    o
}

fn shard(ctx: &ShardCtx, known: &Known) -> ShardOut {
    let mut out = ShardOut::default();
    let opts = opts_for(ctx.db_path("c06.db"));
    let ps = |c: &HistoryCase| super::c01::minimize_with(ctx, known, c, &opts);
    let n = ctx.tier.pick(1500, 30000);
    // 1 in 20 histories runs at a page size that does not divide the 8 MiB growth step, from a
    // 4-page file: the file grows at once and its length is not a whole number of pages
    let strat = (rollback_history(), 0u8..40).prop_map(|(mut h, r)| {
        if r == 0 {
            h.cfg = Cfg { pagesize: 5000, num_pages: 4, strict: false, populate: false };
        } else if r == 1 {
            h.cfg = Cfg { pagesize: 1032, num_pages: 4, strict: false, populate: false };
        } else if r == 2 || r == 3 {
            // opening (and everything else) with strict mode / map-populate must not write either
            h.cfg.strict = true;
        } else if r == 4 || r == 5 {
            h.cfg.populate = true;
        }
        h
    });
    drive(ctx, &mut out, known, "history_c06", strat, n, "rb", Some(&ps), |case| {
        note_current(ctx, "history_c06", case);
        let o = run_history(case, &opts);
        let mut classes = Vec::new();
        let s = &o.stats;
        if s.big_rollbacks > 0 {
            classes.push("big rollback".to_string());
        }
        if case.cfg.pagesize % 1024 != 0 && s.growth {
            classes.push("page size not dividing the growth step, file grown".to_string());
        }
        if s.rollback_then_commit {
            classes.push("rollback then commit".to_string());
        }
        if s.ro_mutator_kinds.count_ones() >= 5 {
            classes.push("reader tried >=5 mutator kinds".to_string());
        }
        if s.ro_mutator_kinds.count_ones() >= 8 {
            classes.push("reader tried >=8 mutator kinds".to_string());
        }
        if s.dumps_after_error > 0 {
            classes.push("erroring call then full in-tx dump".to_string());
        }
        if s.reopens > 1 {
            classes.push("reopen".to_string());
        }
        if s.growth {
            classes.push("file growth".to_string());
        }
        CaseVerdict { nontrivial: nontrivial(s), classes, failure: o.result.err() }
    });
    err_differential(ctx, known, &mut out);
    clear_current(ctx);
    out
}

/// Case of the erroring-call differential: a history whose last transaction (committed) contains
/// calls that return an error.
#[derive(serde::Serialize, serde::Deserialize, Clone, Debug)]
pub struct ErrDiffCase {
    pub history: HistoryCase,
}

/// Pages of the start file's tree (and free-list page) that the transaction replaced, when its
/// operations are run (skipping those marked in `skip`) on a copy of the start file and committed.
/// Returns (replaced page ids, per-operation "returned an error", committed model).
fn run_on_copy(start: &std::path::Path, work: &std::path::Path, cfg: &Cfg, model0: &crate::model::MBucket, ops: &[Op], skip: &[bool]) -> Result<(Vec<u64>, Vec<bool>, crate::model::MBucket), Failure> {
    use crate::interp::*;
    use std::collections::{BTreeSet, HashMap};
    std::fs::copy(start, work).map_err(|e| Failure::new("io", e.to_string()))?;
    let used = |path: &std::path::Path| -> Result<BTreeSet<u64>, Failure> {
        let (bytes, flen) = read_prefix(path, cfg.pagesize)?;
        let rep = crate::fsck::fsck_len(&bytes, cfg.pagesize, flen);
        if !rep.ok() {
            return Err(Failure::new("fsck", format!("file not well-formed: {}", rep.errors.join("; "))));
        }
        let mut s = BTreeSet::new();
        for (p, n) in &rep.stats.used_runs {
            for q in *p..*p + *n {
                s.insert(q);
            }
        }
        Ok(s)
    };
    let before = used(work)?;
    let mut work_model = model0.clone();
    let mut errored = vec![false; ops.len()];
    let r = crate::panics::catch(|| -> Result<(), Failure> {
        let db = open_db(cfg, work)?;
        let arena = bumpalo::Bump::new();
        let tx = db.tx(true).map_err(|e| Failure::new("tx_err", e.to_string()))?;
        let mut stats = CaseStats::default();
        {
            let mut ctx = TxCtx { tx: &tx, arena: &arena, handles: HashMap::new(), fresh_handles: false, writable: true, stats: &mut stats, touched: vec![], tx_deleted: false, tx_inserted: false, ro_kinds: 0 };
            for (i, op) in ops.iter().enumerate() {
                if skip.get(i).copied().unwrap_or(false) {
                    // the handles the harness opens on behalf of the call are opened all the same
                    // (opening a bucket is a successful call with effects of its own at commit)
                    touch_target(&mut ctx, op, &work_model).map_err(|f| f.at(0, Some(i)))?;
                    continue;
                }
                let e0 = ctx.stats.err_returns;
                let before = work_model.clone();
                exec_op(&mut ctx, op, &mut work_model).map_err(|f| f.at(0, Some(i)))?;
                // a failing call = the operation returned an error and changed nothing (run operations
                // such as PutRun can fail for one key and succeed for the others: those stay in)
                errored[i] = ctx.stats.err_returns > e0 && before == work_model;
            }
        }
        tx.commit().map_err(|e| Failure::new("commit_err", e.to_string()))
    });
    match r {
        Err(p) => return Err(Failure::from_panic(p)),
        Ok(Err(f)) => return Err(f),
        Ok(Ok(())) => {}
    }
    let after = used(work)?;
    let _ = std::fs::remove_file(work);
    Ok((before.difference(&after).copied().collect(), errored, work_model))
}

pub fn run_err_diff(case: &ErrDiffCase, dir: &std::path::Path) -> (Result<(), Failure>, usize) {
    let start = dir.join("c06-start.db");
    let wa = dir.join("c06-a.db");
    let wb = dir.join("c06-b.db");
    let mut h = case.history.clone();
    let last = match h.txs.pop() {
        Some(t) => t,
        None => return (Ok(()), 0),
    };
    // pre-sized: neither run has to grow the file
    h.cfg = Cfg { pagesize: 1024, num_pages: 2000, strict: false, populate: false };
    let mut opts = RunOpts::standard(start.clone());
    opts.keep_file = true;
    opts.final_reopen = false;
    let o = run_history(&h, &opts);
    if let Err(f) = o.result {
        let _ = std::fs::remove_file(&start);
        return (Err(f), 0);
    }
    let none = vec![false; last.ops.len()];
    let res = (|| -> Result<usize, Failure> {
        let (rep_a, errored, model_a) = run_on_copy(&start, &wa, &h.cfg, &o.model, &last.ops, &none)?;
        let nerr = errored.iter().filter(|e| **e).count();
        if nerr == 0 {
            return Ok(0);
        }
        // the same transaction without the calls that returned an error
        let (rep_b, errored_b, model_b) = run_on_copy(&start, &wb, &h.cfg, &o.model, &last.ops, &errored)?;
        if errored_b.iter().any(|e| *e) {
            // removing a failing call must not make another call fail (they changed nothing)
            return Err(Failure::new("err_changed", "with the failing calls left out, a call that had succeeded returns an error".into()));
        }
        if model_a != model_b {
            return Err(Failure::new("harness_panic", "model differs with and without the failing calls".into()));
        }
        if rep_a != rep_b {
            let extra: Vec<u64> = rep_a.iter().filter(|p| !rep_b.contains(p)).copied().collect();
            let fewer: Vec<u64> = rep_b.iter().filter(|p| !rep_a.contains(p)).copied().collect();
            return Err(Failure::new(
                "err_changed",
                format!("a transaction with {} failing call(s) replaced other pages of the committed tree than the same transaction without them: additionally replaced {:?}, not replaced {:?} (a call that returned an error left a trace in the commit)", nerr, extra, fewer),
            ));
        }
        Ok(nerr)
    })();
    for p in [&start, &wa, &wb] {
        let _ = std::fs::remove_file(p);
    }
    match res {
        Ok(n) => (Ok(()), n),
        Err(f) => (Err(f), 0),
    }
}

fn err_differential(ctx: &ShardCtx, known: &Known, out: &mut ShardOut) {
    let n = ctx.tier.pick(250, 4000);
    let strat = crate::gen::single_tx_history(30).prop_map(|mut h| {
        if let Some(t) = h.txs.last_mut() {
            t.kind = TxKind::Commit;
        }
        h.fresh_handles = false;
        h
    });
    for i in 0..n {
        let history = gen_one(&strat, mix(ctx.shard_seed("c06-errdiff"), i as u64));
        let case = ErrDiffCase { history };
        note_current(ctx, "c06-errdiff", &case);
        let (r, nerr) = run_err_diff(&case, &ctx.scratch);
        let mut classes = vec!["erroring-call differential".to_string()];
        if nerr > 0 {
            classes.push("differential: transaction with failing calls vs the same without them".to_string());
        }
        record_case(ctx, out, known, "c06-errdiff", &case, CaseVerdict { nontrivial: nerr > 0, classes, failure: r.err() });
    }
}
