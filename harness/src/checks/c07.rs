//! C07 — a write transaction reads its own uncommitted changes.

use super::CheckDef;
use crate::gen::single_tx_history;
use crate::interp::{run_history, RunOpts};
use crate::ops::*;
use crate::runner::*;

pub fn def() -> CheckDef {
    CheckDef {
        meta: CheckMeta {
            id: "C07",
            level: "exploration",
            rule: "single write transactions of 1-60 generated operations (puts, deletes, delete runs that empty first/middle/last leaves, bucket creations and deletions) over every starting shape (fresh, one-, two-, three-level committed buckets, mixed key/sub-bucket buckets). After EVERY operation the whole read API of each touched bucket and its ancestors is compared with the model overlay: get/get_kv for every model key and derived absent keys, full cursor scan (+ next() after the end), seek samples on fresh cursors and along one long-lived cursor that is re-seeked without being drained, range samples with every bound kind, buckets(), kv_pairs(), next_int, Tx::buckets(); around every key-level operation five iterators (ranges with an included / excluded start, a cursor) are obtained before the operation and consumed after it: they must yield the entries of the state after the operation or of the state before it, nothing else; the transaction is then committed (or rolled back) and the committed view re-checked. Non-trivial = transaction on a bucket of height >= 2 with at least one delete and one insert. Distinct = hash of the case.",
            assumptions: &["reference model overlay = clone of the committed model with the transaction's operations applied"],
        },
        shard,
        nshards: NSHARDS,
    }
}

pub fn opts_for(path: std::path::PathBuf) -> RunOpts {
    let mut o = RunOpts::standard(path);
    o.full_check_every_op = true;
    o
}

fn shard(ctx: &ShardCtx, known: &Known) -> ShardOut {
    let mut out = ShardOut::default();
    let opts = opts_for(ctx.db_path("c07.db"));
    let ps = |c: &HistoryCase| super::c01::minimize_with(ctx, known, c, &opts);
    let n = ctx.tier.pick(1000, 20000);
    drive(ctx, &mut out, known, "history_c07", single_tx_history(60), n, "single", Some(&ps), |case| {
        note_current(ctx, "history_c07", case);
        let o = run_history(case, &opts);
        let s = &o.stats;
        let mut classes = Vec::new();
        if s.max_height >= 2 {
            classes.push("start height>=2".to_string());
        }
        if s.max_height >= 3 {
            classes.push("start height>=3".to_string());
        }
        if s.multi_leaf_tx_with_delete_and_insert {
            classes.push("multi-leaf tx with delete+insert".to_string());
        }
        if s.bucket_deletes > 0 {
            classes.push("bucket delete in tx".to_string());
        }
        if s.early_iters > 0 {
            classes.push("iterators obtained before an operation, consumed after it".to_string());
        }
        if case.txs.last().map(|t| t.kind == TxKind::Rollback).unwrap_or(false) {
            classes.push("rolled back".to_string());
        }
        CaseVerdict { nontrivial: s.multi_leaf_tx_with_delete_and_insert, classes, failure: o.result.err() }
    });
    clear_current(ctx);
    out
}
