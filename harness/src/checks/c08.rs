//! C08 — cursors, seeks and ranges return the right entries in order.

use super::CheckDef;
use crate::gen::start_txs;
use crate::interp::*;
use crate::model::{MBucket, MNode};
use crate::ops::*;
use crate::panics::catch;
use crate::runner::*;
use crate::shapes::ShapeKind;
use bumpalo::Bump;
use proptest::prelude::*;
use serde::{Deserialize, Serialize};
use std::collections::{BTreeSet, HashMap};
use std::ops::Bound;

pub fn def() -> CheckDef {
    CheckDef {
        meta: CheckMeta {
            id: "C08",
            level: "exploration",
            rule: "generated buckets (empty, single entry, single leaf, two- and three-level, mixed key/value + sub-bucket, and buckets of 300-800 small entries; committed and mid-transaction after generated inserts/deletes). Candidate keys = for every present key k: k, k||00, k minus its last byte, k with last byte +1 / -1, plus the empty key, 00 and ff ff ff. Every candidate is used as a seek key on a fresh cursor and on a cursor that has already yielded some entries or was run to its end (all candidates up to 64 entries, a seeded sample of 96 above); every pair of candidates x {included, excluded, unbounded}^2 is used as a range (all pairs for <= 12 entries, 1500 seeded pairs above) through (Bound,Bound) and the std range types, plain / to_buckets() / to_kv_pairs(); next() is called 1-3 more times after the end; re-used cursors: one cursor seeked to every stored key in ascending order (0-2 entries read in between), in descending order, and along seeded jumps over the candidates, never drained; plus one fixed bucket of 67 000 entries put by a single transaction that is still open (one in-memory leaf wider than 65 536 entries), queried the same way. Oracles: scan = model entries once ascending then None forever; seek flag = presence, entries after seek = contiguous suffix starting at the key or at its predecessor/successor; range = hand-written filter of the model. An evaluation is one query. Non-trivial = query on a bucket of height >= 2 whose bound key is absent, excluded, or whose bounds are reversed, or a re-used-cursor chain. Distinct = hash of (bucket build, modifications, query); capped at 300k per shard (lower bound when capped).",
            assumptions: &["seek(absent) may position at the predecessor or the successor (the existing test cursor_seek pins the predecessor)"],
        },
        shard,
        nshards: NSHARDS,
    }
}

#[derive(Serialize, Deserialize, Clone, Debug, PartialEq, Eq, Hash)]
pub enum QBound {
    Unb,
    Inc(Vec<u8>),
    Exc(Vec<u8>),
}
impl QBound {
    fn to_bound(&self) -> Bound<Vec<u8>> {
        match self {
            QBound::Unb => Bound::Unbounded,
            QBound::Inc(k) => Bound::Included(k.clone()),
            QBound::Exc(k) => Bound::Excluded(k.clone()),
        }
    }
}

#[derive(Serialize, Deserialize, Clone, Debug, PartialEq, Eq, Hash)]
pub enum Query {
    Scan { extra: u8 },
    Seek { key: Vec<u8>, extra: u8, #[serde(default)] pre: u8 },
    Range { lo: QBound, hi: QBound, mode: u8, extra: u8 },
    /// one cursor re-seeked to each key in turn without being drained, `takes[i]` entries read in between
    Chain { keys: Vec<Vec<u8>>, takes: Vec<u8> },
}

#[derive(Serialize, Deserialize, Clone, Debug)]
pub struct C08Case {
    pub build: HistoryCase,
    /// applied in a write transaction that stays open while the queries run (empty = read tx)
    pub mods: Vec<Op>,
    /// None = enumerate all queries
    pub query: Option<Query>,
}

pub fn candidates(m: &MBucket) -> Vec<Vec<u8>> {
    let mut s: BTreeSet<Vec<u8>> = BTreeSet::new();
    s.insert(vec![]);
    s.insert(vec![0]);
    s.insert(vec![0xff; 3]);
    for k in m.entries.keys() {
        s.insert(k.clone());
        let mut a = k.clone();
        a.push(0);
        s.insert(a);
        let mut a = k.clone();
        a.pop();
        s.insert(a);
        let mut a = k.clone();
        if let Some(l) = a.last_mut() {
            *l = l.wrapping_add(1);
        }
        s.insert(a);
        let mut a = k.clone();
        if let Some(l) = a.last_mut() {
            *l = l.wrapping_sub(1);
        }
        s.insert(a);
    }
    s.into_iter().collect()
}

pub fn run_query(b: &jammdb::Bucket, m: &MBucket, q: &Query, what: &str) -> Result<(), Failure> {
    match q {
        Query::Scan { extra } => check_scan(b, m, *extra, what),
        Query::Seek { key, extra, pre } => check_seek_pre(b, m, key, *extra, *pre, what),
        Query::Range { lo, hi, mode, extra } => check_range(b, m, &lo.to_bound(), &hi.to_bound(), *mode, *extra, what),
        Query::Chain { keys, takes } => check_seek_chain(b, m, keys, takes, what),
    }
}

fn query_nontrivial(m: &MBucket, q: &Query) -> bool {
    match q {
        Query::Scan { .. } => false,
        Query::Chain { keys, .. } => keys.len() >= 2,
        Query::Seek { key, .. } => !m.entries.contains_key(key),
        Query::Range { lo, hi, .. } => {
            let absent = |b: &QBound| match b {
                QBound::Unb => false,
                QBound::Inc(k) => !m.entries.contains_key(k),
                QBound::Exc(_) => true,
            };
            let key = |b: &QBound| match b {
                QBound::Unb => None,
                QBound::Inc(k) | QBound::Exc(k) => Some(k.clone()),
            };
            let reversed = match (key(lo), key(hi)) {
                (Some(a), Some(z)) => a > z,
                _ => false,
            };
            absent(lo) || absent(hi) || reversed
        }
    }
}

pub struct C08Out {
    pub failure: Option<(Failure, Option<Query>)>,
    pub queries: u64,
    pub nontrivial: Vec<u64>,
    pub height: u32,
    pub entries: usize,
    pub midtx: bool,
    pub classes: Vec<String>,
    pub sample_queries: Vec<Query>,
}

/// Builds the bucket, applies the modifications and runs the queries.
pub fn run_case(case: &C08Case, path: &std::path::Path, enumerate_budget: (usize, usize)) -> C08Out {
    let mut out = C08Out { failure: None, queries: 0, nontrivial: vec![], height: 0, entries: 0, midtx: !case.mods.is_empty(), classes: vec![], sample_queries: vec![] };
    let mut opts = RunOpts::standard(path.to_path_buf());
    opts.keep_file = true;
    opts.final_reopen = false;
    let built = run_history(&case.build, &opts);
    if let Err(f) = built.result {
        out.failure = Some((f, None));
        let _ = std::fs::remove_file(path);
        return out;
    }
    out.height = built.stats.max_height;
    let case_hash = hash_json(&(&case.build, &case.mods));
    let r = catch(|| -> Result<(), (Failure, Option<Query>)> {
        let db = open_db(&case.build.cfg, path).map_err(|f| (f, None))?;
        let writable = !case.mods.is_empty();
        let arena = Bump::new();
        let tx = db.tx(writable).map_err(|e| (Failure::new("tx_err", e.to_string()), None))?;
        let mut work = built.model.clone();
        let mut stats = CaseStats::default();
        let mut ctx = TxCtx {
            tx: &tx,
            arena: &arena,
            handles: HashMap::new(),
            fresh_handles: false,
            writable,
            stats: &mut stats,
            touched: vec![],
            tx_deleted: false,
            tx_inserted: false,
            ro_kinds: 0,
        };
        for op in &case.mods {
            exec_op(&mut ctx, op, &mut work).map_err(|f| (f, None))?;
        }
        // targets: /s and (for listing filters) nothing else; skip if it was deleted
        let target = vec![b"s".to_vec()];
        let m = match work.bucket(&target) {
            Some(m) => m.clone(),
            None => return Ok(()),
        };
        out.entries = m.entries.len();
        let b = tx.get_bucket("s").map_err(|e| (Failure::new("ret", format!("get_bucket(s): {}", e)), None))?;
        let what = "/s";
        let tall = out.height >= 2;
        let mut do_q = |q: Query, out: &mut C08Out| -> Result<(), (Failure, Option<Query>)> {
            out.queries += 1;
            if tall && query_nontrivial(&m, &q) && out.nontrivial.len() < 40_000 {
                out.nontrivial.push(mix(case_hash, hash_json(&q)));
                if out.sample_queries.len() < 2 && out.queries % 37 == 0 {
                    out.sample_queries.push(q.clone());
                }
            }
            run_query(&b, &m, &q, what).map_err(|f| (f, Some(q)))
        };
        if let Some(q) = &case.query {
            return do_q(q.clone(), &mut out);
        }
        let cands = candidates(&m);
        let mut rng = Rng(case_hash);
        do_q(Query::Scan { extra: 3 }, &mut out)?;
        // seeks
        if m.entries.len() <= 64 {
            for k in &cands {
                do_q(Query::Seek { key: k.clone(), extra: (rng.below(3)) as u8, pre: 0 }, &mut out)?;
                // the same seek on a cursor that was already used: a few entries in, or run to the end
                let pre = if rng.chance(1, 4) { 200 } else { 1 + rng.below(5) as u8 };
                do_q(Query::Seek { key: k.clone(), extra: 1, pre }, &mut out)?;
            }
        } else {
            for _ in 0..enumerate_budget.0 {
                let k = cands[rng.below(cands.len() as u64) as usize].clone();
                let pre = match rng.below(4) { 0 => 0, 1 => 200, _ => 1 + rng.below(5) as u8 };
                do_q(Query::Seek { key: k, extra: (rng.below(3)) as u8, pre }, &mut out)?;
            }
        }
        // re-used cursors: every stored key in ascending order (each seek leaves the cursor where
        // the next one finds it: on every leaf, incl. the last leaf of every subtree), then
        // descending, then seeded jumps over the candidate keys
        if m.entries.len() >= 2 {
            let all: Vec<Vec<u8>> = m.entries.keys().cloned().collect();
            do_q(Query::Chain { keys: all.clone(), takes: vec![0] }, &mut out)?;
            do_q(Query::Chain { keys: all.clone(), takes: vec![1, 0, 2] }, &mut out)?;
            let mut rev = all.clone();
            rev.reverse();
            do_q(Query::Chain { keys: rev, takes: vec![0, 1] }, &mut out)?;
            for _ in 0..3 {
                let n = 4 + rng.below(12) as usize;
                let keys: Vec<Vec<u8>> = (0..n).map(|_| cands[rng.below(cands.len() as u64) as usize].clone()).collect();
                let takes: Vec<u8> = (0..n).map(|_| rng.below(4) as u8).collect();
                do_q(Query::Chain { keys, takes }, &mut out)?;
            }
        }
        // ranges
        let mut bounds: Vec<QBound> = vec![QBound::Unb];
        for k in &cands {
            bounds.push(QBound::Inc(k.clone()));
            bounds.push(QBound::Exc(k.clone()));
        }
        if m.entries.len() <= 12 {
            for lo in &bounds {
                for hi in &bounds {
                    let mode = rng.below(6) as u8;
                    do_q(Query::Range { lo: lo.clone(), hi: hi.clone(), mode, extra: (rng.below(3)) as u8 }, &mut out)?;
                }
            }
            out.classes.push("all range pairs enumerated".into());
        } else {
            for _ in 0..enumerate_budget.1 {
                let lo = bounds[rng.below(bounds.len() as u64) as usize].clone();
                let hi = bounds[rng.below(bounds.len() as u64) as usize].clone();
                let mode = rng.below(6) as u8;
                do_q(Query::Range { lo, hi, mode, extra: (rng.below(3)) as u8 }, &mut out)?;
            }
        }
        Ok(())
    });
    let _ = std::fs::remove_file(path);
    match r {
        Err(p) => out.failure = Some((Failure::from_panic(p), None)),
        Ok(Err(e)) => out.failure = Some(e),
        Ok(Ok(())) => {}
    }
    out
}

/// 67 000 small entries put into the fresh bucket /s by one write transaction that stays open.
pub fn huge_leaf_case() -> C08Case {
    let mut mods = Vec::new();
    for (base, total) in [(b'k', 65_500u32), (b'l', 1_500u32)] {
        let mut at = 0u32;
        while at < total {
            mods.push(Op::PutRun { b: 0, base: vec![base], start: at as u16, step: 1, n: 250, klen: 0, vlen: 4 });
            at += 250;
        }
    }
    C08Case {
        build: HistoryCase { cfg: Cfg::default(), fresh_handles: false, txs: vec![TxSpec { kind: TxKind::Commit, ops: vec![Op::GetOrCreate { b: 0, k: KeySel::Lit(b"s".to_vec()), kk: 2 }] }], dance: 0 },
        mods,
        query: None,
    }
}

pub fn bucket_strategy() -> impl Strategy<Value = C08Case> {
    let w = OpWeights { put: 8, get: 0, delete: 8, put_run: 3, delete_run: 8, bucket_get: 0, bucket_create: 2, bucket_delete: 1, read_misc: 0, seek_range: 0 };
    let build = prop_oneof![
        1 => Just(vec![TxSpec { kind: TxKind::Commit, ops: vec![Op::GetOrCreate { b: 0, k: KeySel::Lit(b"s".to_vec()), kk: 2 }] }]),
        1 => small_key().prop_map(|k| vec![TxSpec { kind: TxKind::Commit, ops: vec![
            Op::GetOrCreate { b: 0, k: KeySel::Lit(b"s".to_vec()), kk: 2 },
            Op::Put { b: 0, k: KeySel::Lit(k), v: ValSel::Lit(b"v".to_vec()), kk: 2, vk: 2 }] }]),
        2 => (1usize..12).prop_map(|k| start_txs(ShapeKind::OneLevel, k)),
        3 => (2usize..30).prop_map(|k| start_txs(ShapeKind::TwoLevel, k)),
        3 => (6usize..30).prop_map(|k| start_txs(ShapeKind::ThreeLevel, k)),
        3 => (2usize..30).prop_map(|k| start_txs(ShapeKind::Mixed, k)),
        // a bucket of several hundred small entries (any work an iterator postpones until it has
        // yielded a few hundred entries is reached only here)
        1 => (300u16..800, prop::sample::select(vec![0u8, 8, 20])).prop_map(|(n, klen)| {
            let mut ops = vec![Op::GetOrCreate { b: 0, k: KeySel::Lit(b"s".to_vec()), kk: 2 }];
            let mut at = 0u16;
            while at < n {
                let m = (n - at).min(250) as u8;
                ops.push(Op::PutRun { b: 0, base: vec![b'k'], start: at, step: 1, n: m, klen, vlen: 10 });
                at += m as u16;
            }
            vec![TxSpec { kind: TxKind::Commit, ops }]
        }),
        3 => (prop::collection::vec(op(1024, OpWeights { bucket_delete: 0, ..OpWeights::default() }), 1..25)).prop_map(|ops| {
            let mut v = vec![Op::GetOrCreate { b: 0, k: KeySel::Lit(b"s".to_vec()), kk: 2 }];
            v.extend(ops);
            vec![TxSpec { kind: TxKind::Commit, ops: v }]
        }),
    ];
    (
        build,
        prop_oneof![
            2 => Just(vec![]),
            3 => prop::collection::vec(op(1024, w), 1..12),
        ],
    )
        .prop_map(|(txs, mods)| C08Case {
            build: HistoryCase { cfg: Cfg::default(), fresh_handles: false, txs, dance: 0 },
            mods,
            query: None,
        })
}

fn shard(ctx: &ShardCtx, known: &Known) -> ShardOut {
    let mut out = ShardOut::default();
    let path = ctx.db_path("c08.db");
    let budget = (96usize, 1500usize);
    let n = ctx.tier.pick(1000, 20000);
    let queries = std::cell::Cell::new(0u64);
    let nt = std::cell::RefCell::new(BTreeSet::new());
    let failing_query: std::cell::RefCell<Option<Query>> = std::cell::RefCell::new(None);
    let samples: std::cell::RefCell<Vec<serde_json::Value>> = std::cell::RefCell::new(vec![]);
    set_shrink_iters(150);
    let ps = |c: &C08Case| {
        // replay file = the single failing query
        let mut c2 = c.clone();
        c2.query = failing_query.borrow().clone();
        c2
    };
    // one structured case outside the generator: more than 65 536 entries put into a fresh bucket
    // in ONE uncommitted transaction (a single in-memory leaf far wider than any page can be),
    // queried before commit
    if ctx.shard == 0 {
        let case = huge_leaf_case();
        note_current(ctx, "c08", &case);
        let o = run_case(&case, &path, (96, 200));
        queries.set(queries.get() + o.queries);
        let mut c2 = case.clone();
        let failure = o.failure.map(|(f, q)| {
            c2.query = q;
            f
        });
        let classes = vec!["more than 65 536 entries in one in-memory leaf (one uncommitted transaction)".to_string(), "mid-transaction".to_string(), "sampled seeks (>64 entries)".to_string()];
        record_case(ctx, &mut out, known, "c08", &c2, CaseVerdict { nontrivial: false, classes, failure });
    }
    drive(ctx, &mut out, known, "c08", bucket_strategy(), n, "buckets", Some(&ps), |case| {
        note_current(ctx, "c08", case);
        let o = run_case(case, &path, budget);
        queries.set(queries.get() + o.queries);
        {
            let mut s = nt.borrow_mut();
            for h in &o.nontrivial {
                if s.len() < 300_000 {
                    s.insert(*h);
                }
            }
        }
        if samples.borrow().len() < 4 && !o.sample_queries.is_empty() {
            samples.borrow_mut().push(serde_json::json!({
                "bucket": {"entries": o.entries, "height": o.height, "mid_transaction": o.midtx, "build_txs": case.build.txs.len(), "mods": case.mods},
                "queries": o.sample_queries,
            }));
        }
        let mut classes = o.classes.clone();
        classes.push(format!("bucket height {}", o.height.min(3)));
        classes.push(if o.midtx { "mid-transaction".into() } else { "committed (read tx)".into() });
        if o.entries == 0 {
            classes.push("empty bucket".into());
        }
        if o.entries > 64 {
            classes.push("sampled seeks (>64 entries)".into());
        }
        let failure = o.failure.map(|(f, q)| {
            if q.is_some() {
                *failing_query.borrow_mut() = q;
            }
            f
        });
        CaseVerdict { nontrivial: false, classes, failure }
    });
    set_shrink_iters(0);
    clear_current(ctx);
    // an evaluation is one query
    out.extra.insert("buckets".into(), serde_json::json!(out.evaluations));
    out.evaluations = queries.get();
    out.nontrivial = nt.into_inner();
    out.samples = samples.into_inner();
    out
}

pub fn replay(fr: &FailRec, dir: &std::path::Path) -> Option<Failure> {
    let case: C08Case = match serde_json::from_value(fr.case.clone()) {
        Ok(c) => c,
        Err(e) => return Some(Failure::new("harness_panic", format!("bad C08 case: {}", e))),
    };
    run_case(&case, &dir.join("c08.db"), (96, 1500)).failure.map(|(f, _)| f)
}
