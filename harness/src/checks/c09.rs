//! C09 — writers are serialized, no update is lost, and nobody deadlocks.

use super::c04::{run_and_record, verdict_of, C04Case, RunOut, Scenario};
use super::CheckDef;
use crate::interp::Failure;
use crate::panics::catch;
use crate::runner::*;
use crate::sched::*;
use jammdb::{OpenOptions, DB};
use std::path::Path;
use std::sync::atomic::{AtomicBool, AtomicUsize, Ordering};
use std::sync::{Arc, Mutex};

pub fn def() -> CheckDef {
    CheckDef {
        meta: CheckMeta {
            id: "C09",
            level: "exploration",
            rule: "scenarios of 2-3 writer threads, each doing 1-2 read-modify-write increments of a counter key (plus a bulk value; in half of the scenarios the file is a fresh 4-page file, so the first commits have to grow it: resize takes the map lock exclusively; the other half is pre-sized and never resizes) with 1-2 reader threads; in half of the scenarios writer 0 first abandons (rolls back) a write transaction; in two scenarios the database starts with a free list of several pages (a 300-page bucket written and deleted); every thread holds at most one transaction. In a quarter of the scenarios (all with file growth) every lock acquisition inside jammdb is a scheduling point of its own, so a thread can be preempted between two short critical sections. Schedules as in C04: all schedules with <= p preemptions by depth-first re-execution (p = 2 quick, 3 thorough, capped), then seeded random / PCT schedules. Oracles: (1) a flag set after tx(true) returns and cleared before commit is never found set (mutual exclusion); (2) the counter read inside each committed transaction is unique and the final counter equals the number of successful commits (no lost update); a reader never sees a counter below the number of commits that had returned before it began; (3) a reader never reports itself blocked on a lock while every other thread is parked outside jammdb (a reader blocked by an idle, uncommitted open writer); a committing writer waiting for open readers before it grows the file, and writers waiting for each other, are legitimate; (4) after all threads have finished DB::check() passes; (5) no state in which every live thread is blocked, every execution ends within the step bound, and no thread stays blocked when the controller lets everything run free. Non-trivial = schedule with >= 1 preemption in which a writer had to wait for the writer lock or a thread had to wait for the map lock during a resize. Distinct = hash of the choice sequence (per scenario).",
            assumptions: &[
                "liveness is checked as: no reachable all-blocked state, termination within a step bound under every explored schedule; fairness is not modelled",
                "the controller explores a superset of the schedules std's RwLock (writer-preferring) allows, which is sound for these safety oracles",
            ],
        },
        shard,
        nshards: NSHARDS,
    }
}

struct Shared {
    in_write: AtomicBool,
    commits_done: AtomicUsize,
    preds: Mutex<Vec<u64>>,
    failures: Mutex<Vec<String>>,
}

fn parse(v: &[u8]) -> u64 {
    std::str::from_utf8(v).ok().and_then(|s| s.parse().ok()).unwrap_or(u64::MAX)
}

fn build(sc: &Scenario, db: &DB, sh: Arc<Shared>) -> Vec<ThreadFn> {
    let writers = 2 + (sc.pattern as usize % 2);
    let mut ts: Vec<ThreadFn> = Vec::new();
    for w in 0..writers {
        let db = db.clone();
        let sh = sh.clone();
        let incs = sc.commits;
        let bulk = 200 + 300 * (sc.pattern as usize / 2 % 3);
        // scenarios with holds % 8 >= 5 (pre-sized 13, growth 5): writer 0 first abandons a transaction
        let rollback_first = sc.holds % 8 >= 5;
        ts.push(Box::new(move |ctx: ThreadCtx| {
            let r = catch(|| -> Result<(), String> {
                for i in 0..incs {
                    ctx.yield_now("h:writer:start");
                    if rollback_first && i == 0 && w == 0 {
                        // a write transaction that is abandoned: edits, then dropped without commit
                        let tx = db.tx(true).map_err(|e| format!("writer {} tx(true): {}", w, e))?;
                        if sh.in_write.swap(true, Ordering::SeqCst) {
                            return Err(format!("writer {} obtained a write transaction while another one is open", w));
                        }
                        {
                            let b = tx.get_or_create_bucket("c").map_err(|e| e.to_string())?;
                            b.put(format!("abandoned-{}", w), vec![b'r'; bulk]).map_err(|e| e.to_string())?;
                        }
                        ctx.yield_now("h:writer:before_rollback");
                        sh.in_write.store(false, Ordering::SeqCst);
                        drop(tx);
                        ctx.yield_now("h:writer:rolled_back");
                    }
                    let tx = db.tx(true).map_err(|e| format!("writer {} tx(true): {}", w, e))?;
                    if sh.in_write.swap(true, Ordering::SeqCst) {
                        return Err(format!("writer {} obtained a write transaction while another one is open", w));
                    }
                    let n;
                    {
                        let b = tx.get_or_create_bucket("c").map_err(|e| e.to_string())?;
                        n = match b.get_kv("n") {
                            Some(kv) => parse(kv.value()),
                            None => 0,
                        };
                        let done = sh.commits_done.load(Ordering::SeqCst) as u64;
                        if n < done {
                            sh.in_write.store(false, Ordering::SeqCst);
                            return Err(format!("writer {} began after {} commits had returned but reads counter {}", w, done, n));
                        }
                        ctx.yield_now("h:writer:read");
                        b.put("n", (n + 1).to_string()).map_err(|e| e.to_string())?;
                        b.put(format!("bulk-{}-{}", w, i), vec![b'x'; bulk]).map_err(|e| e.to_string())?;
                    }
                    ctx.yield_now("h:writer:before_commit");
                    sh.in_write.store(false, Ordering::SeqCst);
                    tx.commit().map_err(|e| format!("writer {} commit: {}", w, e))?;
                    sh.preds.lock().unwrap().push(n);
                    sh.commits_done.fetch_add(1, Ordering::SeqCst);
                }
                Ok(())
            });
            match r {
                Err(p) => {
                    sh.failures.lock().unwrap().push(format!("writer {} panicked: {} @ {} {}", w, p.msg, p.location, p.frame));
                    ctx.fail_fast();
                }
                Ok(Err(e)) => {
                    sh.failures.lock().unwrap().push(e);
                    ctx.fail_fast();
                }
                Ok(Ok(())) => {}
            }
        }));
    }
    for r in 0..sc.readers {
        let db = db.clone();
        let sh = sh.clone();
        let holds = sc.holds % 4;
        ts.push(Box::new(move |ctx: ThreadCtx| {
            let res = catch(|| -> Result<(), String> {
                ctx.yield_now("h:reader:start");
                let c0 = sh.commits_done.load(Ordering::SeqCst) as u64;
                let tx = db.tx(false).map_err(|e| format!("reader {} tx(false): {}", r, e))?;
                let read = |tx: &jammdb::Tx| -> u64 {
                    match tx.get_bucket("c") {
                        Ok(b) => b.get_kv("n").map(|kv| parse(kv.value())).unwrap_or(0),
                        Err(_) => 0,
                    }
                };
                let n1 = read(&tx);
                if n1 < c0 {
                    return Err(format!("reader {} began after {} commits had returned but reads counter {}", r, c0, n1));
                }
                for _ in 0..holds {
                    ctx.yield_now("h:reader:hold");
                    let n = read(&tx);
                    if n != n1 {
                        return Err(format!("reader {} read counter {} and later {} in the same transaction", r, n1, n));
                    }
                }
                drop(tx);
                Ok(())
            });
            match res {
                Err(p) => {
                    sh.failures.lock().unwrap().push(format!("reader {} panicked: {} @ {} {}", r, p.msg, p.location, p.frame));
                    ctx.fail_fast();
                }
                Ok(Err(e)) => {
                    sh.failures.lock().unwrap().push(e);
                    ctx.fail_fast();
                }
                Ok(Ok(())) => {}
            }
        }));
    }
    ts
}

pub fn prepare_template(path: &Path, presized: bool, bigfree: bool) -> Result<(), Failure> {
    let _ = std::fs::remove_file(path);
    // growth scenarios start from a fresh 4-page file: the first commit has to extend it
    // (8 MiB step, exclusive map lock); pre-sized scenarios never resize and are much cheaper
    // (with the junk bucket the file is pre-sized generously, so that the template stays small and never grows)
    let np = if bigfree { 800 } else if presized { 256 } else { 4 };
    catch(|| -> Result<(), String> {
        let db = OpenOptions::new().pagesize(1024).num_pages(np).open(path).map_err(|e| e.to_string())?;
        if bigfree {
            // a bucket of 300 page-sized values is written and deleted: every writer of the
            // scenario then works with (and publishes) a free list of several pages
            let tx = db.tx(true).map_err(|e| e.to_string())?;
            {
                let b = tx.create_bucket("junk").map_err(|e| e.to_string())?;
                for i in 0..300u32 {
                    b.put(format!("j{:04}", i), vec![b'j'; 900]).map_err(|e| e.to_string())?;
                }
            }
            tx.commit().map_err(|e| e.to_string())?;
            let tx = db.tx(true).map_err(|e| e.to_string())?;
            tx.delete_bucket("junk").map_err(|e| e.to_string())?;
            tx.commit().map_err(|e| e.to_string())?;
        }
        Ok(())
    })
    .map_err(Failure::from_panic)?
    .map_err(|e| Failure::new("harness_panic", format!("template: {}", e)))
}

pub fn run_once(sc: &Scenario, template: &Path, work: &Path, plan: &[usize], strategy: Strategy) -> Result<RunOut, Failure> {
    let _ = std::fs::remove_file(work);
    std::fs::copy(template, work).map_err(|e| Failure::new("io", e.to_string()))?;
    let db = catch(|| OpenOptions::new().pagesize(1024).open(work))
        .map_err(Failure::from_panic)?
        .map_err(|e| Failure::new("open_err", e.to_string()))?;
    let sh = Arc::new(Shared { in_write: AtomicBool::new(false), commits_done: AtomicUsize::new(0), preds: Mutex::new(vec![]), failures: Mutex::new(vec![]) });
    let writers = 2 + (sc.pattern as usize % 2);
    let threads = build(sc, &db, sh.clone());
    let exec = execute_opts(threads, plan, strategy, 8000, sc.lock_yield);
    let mut failures = sh.failures.lock().unwrap().clone();
    // a reader blocked although nobody was inside jammdb: an idle open (uncommitted) writer blocks it.
    // (A committing writer that has to grow the file legitimately waits for open readers, and
    // writers wait for each other on the writer lock.)
    for (t, kind, others_idle) in &exec.blocked_log {
        if *others_idle && *t >= writers {
            failures.push(format!("reader thread {} had to wait for the {} lock while every other thread was parked outside jammdb: blocked by an idle open transaction", t, kind));
            break;
        }
    }
    if let Some((t, true)) = exec.stuck {
        if t >= writers {
            failures.push(format!("reader thread {} stayed blocked for 8 s inside jammdb while every other thread was parked outside jammdb: blocked by an idle open transaction", t));
        }
    }
    let contended = exec.blocked_log.iter().any(|(t, k, _)| (*t < writers && *k == "file") || *k == "mmap_read" || *k == "mmap_write");
    if failures.is_empty() && exec.outcome == Outcome::Completed && exec.leaked == 0 {
        // no lost update
        let mut preds = sh.preds.lock().unwrap().clone();
        preds.sort_unstable();
        let commits = sh.commits_done.load(Ordering::SeqCst) as u64;
        let expect: Vec<u64> = (0..commits).collect();
        if preds != expect {
            failures.push(format!("lost update: the counter values read by the {} committed transactions are {:?}", commits, preds));
        }
        let fin = catch(|| -> Result<u64, String> {
            let tx = db.tx(false).map_err(|e| e.to_string())?;
            let b = tx.get_bucket("c").map_err(|e| e.to_string())?;
            Ok(b.get_kv("n").map(|kv| parse(kv.value())).unwrap_or(0))
        });
        match fin {
            Ok(Ok(n)) if n == commits => {}
            Ok(Ok(n)) => failures.push(format!("lost update: {} commits succeeded but the final counter is {}", commits, n)),
            Ok(Err(e)) => failures.push(format!("final read failed: {}", e)),
            Err(p) => failures.push(format!("final read panicked: {} {}", p.msg, p.frame)),
        }
        if commits != (writers * sc.commits) as u64 {
            failures.push(format!("only {} of {} write transactions committed", commits, writers * sc.commits));
        }
        // the file the writers leave behind accounts for every page
        match catch(|| db.check()) {
            Ok(Ok(())) => {}
            Ok(Err(e)) => failures.push(format!("after all threads finished DB::check() reports: {}", e)),
            Err(p) => failures.push(format!("DB::check() panicked after all threads finished: {} {}", p.msg, p.frame)),
        }
    }
    if exec.leaked == 0 {
        drop(db);
    } else {
        std::mem::forget(db);
    }
    Ok(RunOut { exec, failures, overlap: contended as usize })
}

fn shard(ctx: &ShardCtx, known: &Known) -> ShardOut {
    let mut out = ShardOut::default();
    // pattern: bit 0 = third writer, /2%3 = bulk size
    // holds >= 8 marks a pre-sized (no growth) scenario
    let presized = ctx.shard % 2 == 1;
    let sc = Scenario { readers: 1 + (ctx.shard / 4) % 2, commits: 1 + (ctx.shard / 8) % 2, pattern: ((ctx.shard / 2) % 6) as u8, holds: (if presized { 9 } else { 1 }) + if (ctx.shard / 2) % 2 == 1 { 4 } else { 0 }, grow: ctx.shard % 8 == 5, lock_yield: ctx.shard % 4 == 0 || ctx.shard % 8 == 3 };
    let template = ctx.db_path("c09.template.db");
    if let Err(f) = prepare_template(&template, presized, sc.grow) {
        out.inconclusive.push(f.line());
        return out;
    }
    let work_base = ctx.db_path("c09");
    let counter = std::cell::Cell::new(0u64);
    let exec = |plan: &[usize], strat: Strategy| {
        // a fresh path after an execution that left threads behind
        let work = work_base.with_extension(format!("{}.db", counter.get()));
        let r = run_once(&sc, &template, &work, plan, strat);
        match &r {
            Ok(ro) if ro.exec.leaked > 0 => counter.set(counter.get() + 1),
            _ => {
                let _ = std::fs::remove_file(&work);
            }
        }
        r
    };
    let bound = ctx.tier.pick(2, 3);
    let max_execs = if presized { ctx.tier.pick(8_000, 300_000) } else { ctx.tier.pick(2_000, 60_000) };
    let mut ok = true;
    // all schedules with at most one preemption first (always completes), then the larger bound
    let stats1 = dfs(1, max_execs, |plan| {
        let (t, pass) = run_and_record("C09", ctx, known, &mut out, &sc, plan, 0, 0, &exec);
        ok = ok && pass;
        (t, pass)
    });
    out.extra.insert("dfs_bound1".into(), serde_json::json!([{"executions": stats1.executions, "complete": stats1.complete}]));
    if !ok {
        let _ = std::fs::remove_file(&template);
        return out;
    }
    let stats = dfs(bound, max_execs, |plan| {
        let (t, pass) = run_and_record("C09", ctx, known, &mut out, &sc, plan, 0, 0, &exec);
        ok = ok && pass;
        (t, pass)
    });
    out.exhaustive = Some(stats.complete);
    out.extra.insert("dfs".into(), serde_json::json!([{"scenario": {"writers": 2 + (sc.pattern % 2), "increments_each": sc.commits, "readers": sc.readers, "bulk": sc.pattern / 2 % 3, "file_growth": !presized}, "bound": bound, "executions": stats.executions, "complete": stats.complete, "diverged": stats.diverged, "longest_trace": stats.max_trace}]));
    if ok {
        // with a scheduling point at every lock the bounded search covers less of each trace: more random schedules there
        let n = if sc.lock_yield { ctx.tier.pick(3000, 15000) } else if presized { ctx.tier.pick(2000, 60000) } else { ctx.tier.pick(400, 12000) };
        for i in 0..n {
            let seed = mix(ctx.shard_seed("c09-rand"), i as u64);
            let sid = if i % 2 == 0 { 1 } else { 2 };
            let (_, pass) = run_and_record("C09", ctx, known, &mut out, &sc, &[], sid, seed, &exec);
            if !pass {
                break;
            }
        }
    }
    let _ = std::fs::remove_file(&template);
    out
}

pub fn replay(fr: &FailRec, dir: &std::path::Path) -> Option<Failure> {
    let case: C04Case = match serde_json::from_value(fr.case.clone()) {
        Ok(c) => c,
        Err(e) => return Some(Failure::new("harness_panic", format!("bad C09 case: {}", e))),
    };
    let template = dir.join("c09.template.db");
    if let Err(f) = prepare_template(&template, case.scenario.holds >= 8, case.scenario.grow) {
        return Some(f);
    }
    let strat = match case.strategy {
        1 => Strategy::Random(case.seed),
        2 => Strategy::Pct { seed: case.seed, depth: 3, est_len: 80 },
        _ => Strategy::NoPreempt,
    };
    match run_once(&case.scenario, &template, &dir.join("c09.db"), &case.plan, strat) {
        Err(f) => Some(f),
        Ok(ro) => verdict_of("C09", &ro).0,
    }
}
