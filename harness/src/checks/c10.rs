//! C10 — freed space is reused: file growth is bounded by live data.

use super::CheckDef;
use crate::fsck;
use crate::interp::*;
use crate::model::{MBucket, MNode};
use crate::ops::*;
use crate::panics::catch;
use crate::runner::*;
use serde::{Deserialize, Serialize};
use std::collections::HashSet;

pub fn def() -> CheckDef {
    CheckDef {
        meta: CheckMeta {
            id: "C10",
            level: "exploration",
            rule: "seeded long stationary workloads (quick 800, thorough 4000 transactions each) over a bounded key set: (0) fixed-size overwrite, (1) variable-size overwrite/delete with values from 10 bytes to 4 pages, (2) bucket create/fill/delete cycles (in a quarter of them with 500-byte keys, so that branch pages carry overflow runs), (3) sixteen short keys with tiny values that share their leaves with occasional values of 66-140 pages and of 1-4 pages (leaves split around long overflow runs; half the length of the other runs); variants: reopen every 25 transactions, 10% rollbacks, a reader pinned for the stretch [N/3, N/2) (file pre-sized, as in C03), and rolling young readers (a fresh reader open at the moment every writer begins and closed before its commit; or a reader opened after each commit and held across the whole next write transaction) which never need old pages. After every commit the independent parser measures live_t (reachable + free-list page run), dirty_t (pages in use now that were not in use before the commit) and the high-water mark H_t. Oracles: (i) without a pinned reader H_end <= 4*(max live + 2*max dirty) + 16 (fixed-size workload: max live + 3*max dirty + 8); (ii) with a pinned reader its dump stays equal to its snapshot at every 10th step, and H_end <= H_at_close + 2*max dirty + 8; (iii) the same across reopen; (iv) runs that begin with a one-off phase leaving more than 1024 pages in the free set (3000 keys put then deleted, or their bucket deleted) followed by the same stationary workloads: H at every step <= H when the stationary phase began + 2*max dirty + 8; every commit also passes exact page accounting and matches the model. Non-trivial = run of >= 300 commits whose cumulative dirty pages exceed 10x the bound (for (iv): >= 300 commits starting from more than 1024 free pages). Distinct = (workload, variant, seed).",
            assumptions: &[
                "bounds are relative to live and dirty pages measured on the same run, so a different fill factor or allocation policy that still reuses space stays within them",
                "calibrated on the unchanged tree: H plateaus well inside the bound, a free list that never releases pages exceeds it within a few hundred transactions",
            ],
        },
        shard,
        nshards: NSHARDS,
    }
}

#[derive(Serialize, Deserialize, Clone, Debug, PartialEq, Eq, Hash)]
pub struct C10Case {
    pub workload: u8,
    pub reopen_every: u32,
    pub rollbacks: bool,
    pub pinned_reader: bool,
    /// 0 none; 1 a fresh reader is open at the moment every writer begins (closed right after);
    /// 2 a reader opened after each commit is held across the whole next write transaction
    #[serde(default)]
    pub rolling: u8,
    pub seed: u64,
    pub ntx: u32,
    /// 0 none; before the stationary workload a one-off phase leaves a large free set behind
    /// (> 1024 pages): 1 = 3000 keys put and then deleted, 2 = the same bucket deleted as a whole
    #[serde(default)]
    pub prelude: u8,
}

#[derive(Default, Debug)]
pub struct C10Stats {
    pub commits: u64,
    pub max_live: u64,
    pub max_dirty: u64,
    pub cum_dirty: u64,
    pub h_end: u64,
    pub h_close: u64,
    pub bound: u64,
    pub reopens: u64,
    pub rollbacks: u64,
    pub discarded: bool,
    /// high-water mark and free-list length when the prelude was over
    pub h_prelude: u64,
    pub free_prelude: u64,
}

fn gen_tx(case: &C10Case, rng: &mut Rng, i: u32, model: &MBucket) -> Vec<Op> {
    let key = |j: u64| KeySel::Lit(format!("key{:03}", j).into_bytes());
    let mut ops = Vec::new();
    match case.workload {
        0 => {
            for _ in 0..5 {
                ops.push(Op::Put { b: 0, k: key(rng.below(40)), v: ValSel::Fill { len: 300, seed: rng.next() as u8 }, kk: (rng.below(11)) as u8, vk: 2 });
            }
        }
        1 => {
            for _ in 0..5 {
                let j = rng.below(40);
                if rng.chance(1, 4) {
                    ops.push(Op::Delete { b: 0, k: key(j) });
                } else {
                    let len = match rng.below(4) {
                        0 => 10 + rng.below(50),
                        1 => 100 + rng.below(400),
                        2 => 900 + rng.below(400),
                        _ => 1024 + rng.below(3 * 1024),
                    } as u32;
                    ops.push(Op::Put { b: 0, k: key(j), v: ValSel::Fill { len, seed: rng.next() as u8 }, kk: 2, vk: (rng.below(11)) as u8 });
                }
            }
        }
        3 => {
            // sixteen short keys h00..h15 that sort in front of everything else in /w, mostly with
            // tiny values (so that they share leaves of many entries), now and then with a value of
            // 66-140 pages or of 1-4 pages: leaves that are split around a long overflow run
            let hkey = |j: u64| KeySel::Lit(format!("h{:02}", j).into_bytes());
            for _ in 0..5 {
                let j = if rng.chance(1, 3) { rng.below(3) } else { rng.below(16) };
                if rng.chance(1, 5) {
                    ops.push(Op::Delete { b: 0, k: hkey(j) });
                } else {
                    let len = match rng.below(8) {
                        0 => 66 * 1024 + rng.below(74 * 1024),
                        1 => 1024 + rng.below(3 * 1024),
                        _ => 10 + rng.below(30),
                    } as u32;
                    ops.push(Op::Put { b: 0, k: hkey(j), v: ValSel::Fill { len, seed: rng.next() as u8 }, kk: 2, vk: 2 });
                }
            }
        }
        _ => {
            // bucket cycles under /w: create+fill t{i%6}, delete t{(i+3)%6}
            let name = |j: u32| KeySel::Lit(format!("t{}", j % 6).into_bytes());
            let sub_exists = |j: u32| -> bool {
                model
                    .bucket(&[b"w".to_vec()])
                    .map(|w| matches!(w.entries.get(format!("t{}", j % 6).as_bytes()), Some(MNode::Bucket(_))))
                    .unwrap_or(false)
            };
            if sub_exists(i + 3) {
                ops.push(Op::DeleteBucket { b: ROOT_SEL, k: name(i + 3), kk: 2 });
            }
            ops.push(Op::GetOrCreate { b: ROOT_SEL, k: name(i), kk: 2 });
            // the new/updated bucket: address it by rank among non-root paths is fragile, so fill /w itself too
            ops.push(Op::PutRun { b: 0, base: b"f".to_vec(), start: (rng.below(30)) as u16, step: 1, n: 8, klen: 0, vlen: (100 + rng.below(300)) as u16 });
            // in a quarter of these runs the cycled buckets hold 500-byte keys (branch pages with overflow runs)
            let klen = if case.seed % 4 == 1 { 250 } else { 0 };
            ops.push(Op::PutRun { b: (rng.below(65536)) as u16, base: b"g".to_vec(), start: (rng.below(10)) as u16, step: 1, n: 6, klen, vlen: (50 + rng.below(600)) as u16 });
            ops.push(Op::DeleteRun { b: (rng.below(65536)) as u16, start: (rng.below(65536)) as u16, n: 5 });
        }
    }
    ops
}

pub fn run_case(case: &C10Case, path: &std::path::Path, st: &mut C10Stats) -> Result<(), Failure> {
    let _ = std::fs::remove_file(path);
    let num_pages = if case.pinned_reader || case.rolling == 2 { 40000 } else { 32 };
    let cfg = Cfg { pagesize: 1024, num_pages, strict: false, populate: false };
    let mut opts = RunOpts::standard(path.to_path_buf());
    opts.fsck_after_commit = false;
    opts.dbcheck_after_commit = false;
    opts.dump_after_commit = false;
    let r = catch(|| -> Result<(), Failure> {
        let mut rng = Rng(case.seed);
        let mut model = MBucket::default();
        let mut cs = CaseStats::default();
        let mut db = open_db(&cfg, path)?;
        let setup = TxSpec {
            kind: TxKind::Commit,
            ops: vec![
                Op::GetOrCreate { b: 0, k: KeySel::Lit(b"w".to_vec()), kk: 2 },
                Op::PutRun { b: 0, base: b"key".to_vec(), start: 0, step: 1, n: 40, klen: 0, vlen: 300 },
            ],
        };
        // key format of PutRun is base + 5 digits; the workloads use key%03d — both are fine, bounded sets
        let mut at = None;
        let mut work = model.clone();
        run_tx(&db, &setup, false, &mut work, &opts, &mut cs, &mut at, None)?;
        model = work;
        let mut prev_used: HashSet<u64> = HashSet::new();
        if case.prelude != 0 {
            // "zbig" sorts behind /w and everything below it, so selector 0xFFFF addresses it
            let mut fill = vec![Op::CreateBucket { b: 0, k: KeySel::Lit(b"zbig".to_vec()), kk: 2 }];
            for j in 0..12u16 {
                fill.push(Op::PutRun { b: 0xFFFF, base: b"z".to_vec(), start: j * 250, step: 1, n: 250, klen: 0, vlen: 350 });
            }
            let clear = if case.prelude == 1 {
                (0..12).map(|_| Op::DeleteRun { b: 0xFFFF, start: 0, n: 250 }).collect()
            } else {
                vec![Op::DeleteBucket { b: 0, k: KeySel::Lit(b"zbig".to_vec()), kk: 2 }]
            };
            let small = |j: u8| vec![Op::Put { b: 0, k: KeySel::Lit(b"key000".to_vec()), v: ValSel::Fill { len: 300, seed: j }, kk: 2, vk: 2 }];
            for (pi, ops) in [fill, clear, small(1), small(2), small(3)].into_iter().enumerate() {
                let mut work = model.clone();
                let mut at = None;
                run_tx(&db, &TxSpec { kind: TxKind::Commit, ops }, false, &mut work, &opts, &mut cs, &mut at, None).map_err(|mut f| {
                    f.msg = format!("prelude step {}: {}", pi, f.msg);
                    f
                })?;
                model = work;
            }
            let bytes = read_prefix(path, 1024)?;
            let rep = fsck::fsck(&bytes, 1024);
            if !rep.ok() {
                return Err(Failure::new("fsck", format!("after the prelude: {}", rep.errors.join("; "))));
            }
            if let Some(df) = crate::model::diff(&model, rep.dump.as_ref().unwrap(), &mut vec![], true) {
                return Err(Failure::new("fsck_dump", format!("after the prelude: {}", df)));
            }
            st.h_prelude = rep.stats.num_pages;
            st.free_prelude = rep.stats.free_entries as u64;
            for (p, n) in &rep.stats.used_runs {
                for q in *p..*p + *n {
                    prev_used.insert(q);
                }
            }
        }
        let pin_from = case.ntx / 3;
        let pin_to = case.ntx / 2;
        let mut i = 0u32;
        while i < case.ntx {
            // segment: until the next reopen / pin boundary
            let mut seg_end = case.ntx;
            if case.reopen_every > 0 {
                seg_end = seg_end.min((i / case.reopen_every + 1) * case.reopen_every);
            }
            let pinned_now = case.pinned_reader && i >= pin_from && i < pin_to;
            if case.pinned_reader {
                if i < pin_from {
                    seg_end = seg_end.min(pin_from);
                } else if i < pin_to {
                    seg_end = seg_end.min(pin_to);
                }
            }
            {
                let reader = if pinned_now {
                    Some((db.tx(false).map_err(|e| Failure::new("tx_err", e.to_string()))?, model.clone()))
                } else {
                    None
                };
                // rolling readers: young snapshots only, they never need old pages
                let mut held: Option<(jammdb::Tx, MBucket)> = None;
                while i < seg_end {
                    let ops = gen_tx(case, &mut rng, i, &model);
                    let commit = !(case.rollbacks && rng.chance(1, 10));
                    let spec = TxSpec { kind: if commit { TxKind::Commit } else { TxKind::Rollback }, ops };
                    let mut work = model.clone();
                    let mut at = None;
                    let committed = if case.rolling == 1 {
                        // a reader is open exactly while the writer begins
                        let r = std::cell::RefCell::new(Some(db.tx(false).map_err(|e| Failure::new("tx_err", e.to_string()))?));
                        let mut first = true;
                        let mut hook = |_: &mut TxCtx, _: &MBucket| -> Result<(), Failure> {
                            if first {
                                first = false;
                                r.borrow_mut().take();
                            }
                            Ok(())
                        };
                        // the hook runs after the ops (before commit): the reader is closed before the commit
                        let c = run_tx(&db, &spec, false, &mut work, &opts, &mut cs, &mut at, Some(&mut hook)).map_err(|f| f.at(i as usize, at))?;
                        c
                    } else {
                        run_tx(&db, &spec, false, &mut work, &opts, &mut cs, &mut at, None).map_err(|f| f.at(i as usize, at))?
                    };
                    if case.rolling == 2 {
                        // the reader opened after the previous commit saw this whole transaction; check and replace it
                        if let Some((rtx, snap)) = held.take() {
                            if i % 16 == 0 {
                                let d = dump_tx(&rtx).map_err(|s| Failure::new("dump", format!("rolling reader at tx {}: {}", i, s)))?;
                                compare_dump(&snap, &d, &format!("rolling reader at tx {}", i))?;
                            }
                            drop(rtx);
                        }
                    }
                    if committed {
                        model = work;
                        st.commits += 1;
                        let bytes = read_prefix(path, 1024)?;
                        let rep = fsck::fsck(&bytes, 1024);
                        if !rep.ok() {
                            return Err(Failure::new("fsck", format!("after tx {}: {}", i, rep.errors.join("; "))).at(i as usize, None));
                        }
                        if let Some(df) = crate::model::diff(&model, rep.dump.as_ref().unwrap(), &mut vec![], true) {
                            return Err(Failure::new("fsck_dump", format!("after tx {}: {}", i, df)).at(i as usize, None));
                        }
                        let mut used: HashSet<u64> = HashSet::new();
                        for (p, n) in &rep.stats.used_runs {
                            for q in *p..*p + *n {
                                used.insert(q);
                            }
                        }
                        let live = used.len() as u64;
                        let dirty = used.iter().filter(|p| !prev_used.contains(p)).count() as u64;
                        st.max_live = st.max_live.max(live);
                        if st.commits > 1 {
                            st.max_dirty = st.max_dirty.max(dirty);
                            st.cum_dirty += dirty;
                        }
                        st.h_end = rep.stats.num_pages;
                        prev_used = used;
                        if case.pinned_reader && rep.stats.num_pages + 3000 > num_pages as u64 {
                            // cannot continue without growing the file under the pinned reader: discard
                            st.discarded = true;
                            return Ok(());
                        }
                        // the bound must hold for every prefix of the run as well (stationary workload)
                        if !case.pinned_reader && st.commits >= 100 {
                            let b = if case.prelude != 0 {
                                st.h_prelude + 2 * st.max_dirty + 8
                            } else if case.workload == 0 {
                                st.max_live + 3 * st.max_dirty + 8
                            } else {
                                4 * (st.max_live + 2 * st.max_dirty) + 16
                            };
                            if st.h_end > b {
                                st.bound = b;
                                return Err(Failure::new(
                                    "growth",
                                    format!("high-water mark {} pages after {} commits exceeds the bound {} (max live {} pages, max dirty {} per commit, cumulative dirty {}): freed space is not being reused",
                                        st.h_end, st.commits, b, st.max_live, st.max_dirty, st.cum_dirty),
                                ));
                            }
                        }
                    } else {
                        st.rollbacks += 1;
                    }
                    if case.rolling == 2 && i + 1 < seg_end {
                        let m2 = if committed { work_after(&model) } else { model.clone() };
                        held = Some((db.tx(false).map_err(|e| Failure::new("tx_err", e.to_string()))?, m2));
                    }
                    if let Some((rtx, snap)) = &reader {
                        if i % 10 == 0 || i + 1 == seg_end {
                            let d = dump_tx(rtx).map_err(|s| Failure::new("dump", format!("pinned reader at tx {}: {}", i, s)))?;
                            compare_dump(snap, &d, &format!("pinned reader at tx {}", i))?;
                        }
                    }
                    i += 1;
                }
                if reader.is_some() {
                    st.h_close = st.h_end;
                }
            }
            if case.reopen_every > 0 && i % case.reopen_every == 0 && i < case.ntx {
                drop(db);
                db = open_db(&cfg, path)?;
                st.reopens += 1;
                let d = dump_db(&db)?;
                compare_dump(&model, &d, &format!("after reopen at tx {}", i))?;
            }
        }
        if st.discarded {
            return Ok(());
        }
        // bounds
        let bound = if case.pinned_reader {
            st.h_close + 2 * st.max_dirty + 8
        } else if case.prelude != 0 {
            st.h_prelude + 2 * st.max_dirty + 8
        } else if case.workload == 0 {
            st.max_live + 3 * st.max_dirty + 8
        } else {
            4 * (st.max_live + 2 * st.max_dirty) + 16
        };
        st.bound = bound;
        if st.h_end > bound {
            return Err(Failure::new(
                "growth",
                format!(
                    "high-water mark {} pages after {} commits exceeds the bound {} (max live {} pages, max dirty {} per commit, cumulative dirty {}{}): freed space is not being reused",
                    st.h_end, st.commits, bound, st.max_live, st.max_dirty, st.cum_dirty,
                    if case.pinned_reader { format!(", high-water mark when the pinned reader closed {}", st.h_close) } else if case.prelude != 0 { format!(", high-water mark {} and {} free-list entries when the stationary workload began", st.h_prelude, st.free_prelude) } else { String::new() }
                ),
            ));
        }
        Ok(())
    });
    let _ = std::fs::remove_file(path);
    match r {
        Err(p) => Err(Failure::from_panic(p)),
        Ok(r) => r,
    }
}

fn work_after(m: &MBucket) -> MBucket {
    m.clone()
}

pub fn read_prefix(path: &std::path::Path, ps: u64) -> Result<Vec<u8>, Failure> {
    use std::io::Read;
    let mut f = std::fs::File::open(path).map_err(|e| Failure::new("io", e.to_string()))?;
    let mut head = vec![0u8; 2 * ps as usize];
    f.read_exact(&mut head).map_err(|e| Failure::new("io", e.to_string()))?;
    let (_, slots) = fsck::choose_meta(&head, ps);
    let hw = slots.iter().flatten().map(|m| m.num_pages).max().unwrap_or(4).min(1 << 24);
    let mut rest = vec![0u8; (hw.saturating_sub(2) * ps) as usize];
    f.read_exact(&mut rest).map_err(|e| Failure::new("io", e.to_string()))?;
    head.extend(rest);
    Ok(head)
}

pub fn plan(ctx: &ShardCtx) -> Vec<C10Case> {
    let per = ctx.tier.pick(8, 24);
    let ntx = ctx.tier.pick(800, 4000);
    let mut v = Vec::new();
    for j in 0..per {
        let idx = ctx.shard * per + j;
        let seed = mix(ctx.shard_seed("c10"), j as u64);
        v.push(C10Case {
            workload: (idx % 3) as u8,
            reopen_every: if (idx / 3) % 2 == 1 { 25 } else { 0 },
            rollbacks: (idx / 6) % 2 == 1,
            pinned_reader: ((idx / 12) % 2 == 1 || idx % 7 == 3) && idx % 5 != 1 && idx % 5 != 4,
            rolling: if idx % 5 == 1 { 1 } else if idx % 5 == 4 { 2 } else { 0 },
            seed,
            ntx,
            prelude: 0,
        });
    }
    // stationary workloads that start with a large free set (> 1024 pages) left by a one-off phase
    let per2 = ctx.tier.pick(2, 6);
    for j in 0..per2 {
        let idx = ctx.shard * per2 + j;
        v.push(C10Case {
            workload: (idx % 3) as u8,
            reopen_every: if (idx / 3) % 2 == 1 { 25 } else { 0 },
            rollbacks: false,
            pinned_reader: false,
            rolling: 0,
            seed: mix(ctx.shard_seed("c10p"), j as u64),
            ntx: ntx / 2,
            prelude: 1 + ((idx / 6) % 2) as u8,
        });
    }
    // short keys with tiny values sharing leaves with values of 66-140 pages
    let per3 = ctx.tier.pick(2, 6);
    for j in 0..per3 {
        let idx = ctx.shard * per3 + j;
        v.push(C10Case {
            workload: 3,
            reopen_every: if idx % 2 == 1 { 25 } else { 0 },
            rollbacks: idx % 4 >= 2,
            pinned_reader: false,
            rolling: 0,
            seed: mix(ctx.shard_seed("c10h"), j as u64),
            ntx: ntx / 2,
            prelude: 0,
        });
    }
    v
}

fn shard(ctx: &ShardCtx, known: &Known) -> ShardOut {
    let mut out = ShardOut::default();
    let path = ctx.db_path("c10.db");
    for case in plan(ctx) {
        note_current(ctx, "c10", &case);
        let mut st = C10Stats::default();
        let r = run_case(&case, &path, &mut st);
        let nt = !st.discarded && st.commits >= 300 && (st.cum_dirty > 10 * st.bound.max(1) || (case.prelude != 0 && st.free_prelude > 1024));
        if st.discarded {
            out.excluded += 1;
        }
        let mut classes = vec![format!("workload {}", case.workload)];
        if case.reopen_every > 0 {
            classes.push("periodic reopen".into());
        }
        if case.rollbacks {
            classes.push("10% rollbacks".into());
        }
        if case.pinned_reader {
            classes.push("pinned reader".into());
        }
        if case.rolling == 1 {
            classes.push("rolling readers: one open whenever a writer begins".into());
        }
        if case.rolling == 2 {
            classes.push("rolling readers: each held across one write transaction".into());
        }
        if case.prelude != 0 {
            classes.push(format!("starts with a large free set ({})", if case.prelude == 1 { "3000 keys deleted" } else { "big bucket deleted" }));
        }
        out.extra.entry("runs".into()).or_insert_with(|| serde_json::json!([]));
        if let Some(serde_json::Value::Array(a)) = out.extra.get_mut("runs") {
            a.push(serde_json::json!({"case": case, "commits": st.commits, "max_live": st.max_live, "max_dirty": st.max_dirty, "cum_dirty": st.cum_dirty, "h_end": st.h_end, "h_close": st.h_close, "h_prelude": st.h_prelude, "free_prelude": st.free_prelude, "bound": st.bound}));
        }
        record_case(ctx, &mut out, known, "c10", &case, CaseVerdict { nontrivial: nt, classes, failure: r.err() });
    }
    clear_current(ctx);
    out
}

pub fn replay(fr: &FailRec, dir: &std::path::Path) -> Option<Failure> {
    let case: C10Case = match serde_json::from_value(fr.case.clone()) {
        Ok(c) => c,
        Err(e) => return Some(Failure::new("harness_panic", format!("bad C10 case: {}", e))),
    };
    let mut st = C10Stats::default();
    run_case(&case, &dir.join("c10.db"), &mut st).err()
}
