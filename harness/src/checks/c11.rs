//! C11 — a commit that reports an I/O error neither corrupts nor half-applies.

use super::CheckDef;
use crate::crash::Ev;
use crate::fsck;
use crate::interp::*;
use crate::model::MBucket;
use crate::ops::*;
use crate::panics::catch;
use crate::runner::*;
use serde::{Deserialize, Serialize};
use std::path::{Path, PathBuf};

pub fn def() -> CheckDef {
    CheckDef {
        meta: CheckMeta {
            id: "C11",
            level: "fault_enumeration",
            rule: "generated histories (1 in 4 with a free list spanning several pages; in a third of them every writer, before and after the fault, begins while a short-lived reader is open) run in a worker process under the LD_PRELOAD shim; for a chosen target commit a dry run counts the I/O calls the commit issues on the database descriptor (every lseek, write, fsync), then one worker per fault is run with that call failing: EIO and ENOSPC for every call, plus for writes 'short write then error' (1, 100, 512 bytes transferred), plus a file-size limit (RLIMIT_FSIZE = current size, SIGXFSZ ignored) so that file extension and writes beyond the limit fail. Oracle in the worker: the faulted commit returns Err (a panic or abort is a failure); immediately afterwards, on the same handle, a reader sees exactly the pre- or the post-transaction state; the independent parser finds the file sound and equal to that state; DB::check passes; 3-6 further generated transactions on the same handle commit and match the model continued from the observed state with every commit verified; after reopen the same. Single faults are enumerated exhaustively per target commit; pairs are sampled: a first fault in the target commit and a second one (re-armed) in one of the next three commits on the same handle, each faulted commit judged the same way; plus structured pairs on the two header writes (torn inside the record, torn behind it, failing outright). Non-trivial = fault that fired after at least one write of the commit had succeeded. Distinct = (history, target, fault).",
            assumptions: &[
                "faults are injected at the libc boundary (write, lseek64, fsync); fallocate is a raw syscall and is made to fail through RLIMIT_FSIZE instead",
                "a fault makes that one call fail; the file system otherwise behaves (what was written before the fault stays written)",
            ],
        },
        shard,
        nshards: NSHARDS,
    }
}

#[derive(Serialize, Deserialize, Clone, Debug, PartialEq, Eq, Hash)]
pub enum Fault {
    None,
    Nth { n: u32, errno: i32, short: Option<u32> },
    Fsize,
}

#[derive(Serialize, Deserialize, Clone, Debug)]
pub struct C11Case {
    pub history: HistoryCase,
    /// index (into history.txs) of the transaction whose commit is faulted
    pub target: usize,
    pub fault: Fault,
    /// second fault of a pair: (index of a later transaction, fault) — armed with the marker ARM2
    #[serde(default)]
    pub second: Option<(usize, Fault)>,
}

#[derive(Serialize, Deserialize, Clone, Debug, Default)]
pub struct WorkerReport {
    pub commit: String,
    pub observed: String,
    pub failure: Option<Failure>,
    pub after_commits: u64,
    #[serde(default)]
    pub commit2: String,
    #[serde(default)]
    pub observed2: String,
}

fn set_fsize_limit(limit: Option<u64>) {
    unsafe {
        libc::signal(libc::SIGXFSZ, libc::SIG_IGN);
        let mut rl = libc::rlimit { rlim_cur: 0, rlim_max: 0 };
        libc::getrlimit(libc::RLIMIT_FSIZE, &mut rl);
        rl.rlim_cur = match limit {
            Some(l) => l,
            None => rl.rlim_max,
        };
        libc::setrlimit(libc::RLIMIT_FSIZE, &rl);
    }
}

/// Worker side (runs under the shim).
pub fn worker(casef: &str, db: &str, out: &str) -> i32 {
    let case: C11Case = match std::fs::read_to_string(casef).ok().and_then(|s| serde_json::from_str(&s).ok()) {
        Some(c) => c,
        None => return 2,
    };
    let path = PathBuf::from(db);
    let _ = std::fs::remove_file(&path);
    let mut rep = WorkerReport::default();
    let r = run_worker_inner(&case, &path, &mut rep);
    if let Err(f) = r {
        rep.failure = Some(f);
    }
    let _ = std::fs::write(out, serde_json::to_string(&rep).unwrap_or_default());
    0
}

fn run_worker_inner(case: &C11Case, path: &Path, rep: &mut WorkerReport) -> Result<(), Failure> {
    let cfg = &case.history.cfg;
    let mut quiet = RunOpts::standard(path.to_path_buf());
    quiet.fsck_after_commit = false;
    quiet.dbcheck_after_commit = false;
    quiet.dump_after_commit = false;
    // a short-lived reader around every writer (open when the writer begins, closed before its commit)
    quiet.reader_dance = case.history.dance;
    let db = open_db(cfg, path)?;
    let mut model = MBucket::default();
    let mut cs = CaseStats::default();
    for (ti, spec) in case.history.txs.iter().enumerate().take(case.target) {
        if spec.kind == TxKind::Reopen {
            continue;
        }
        let mut work = model.clone();
        let mut at = None;
        let committed = catch(|| run_tx(&db, spec, false, &mut work, &quiet, &mut cs, &mut at, None)).map_err(Failure::from_panic)?.map_err(|f| f.at(ti, at))?;
        if committed {
            model = work;
        }
    }
    let (observed, commit, obs) = faulted_commit(&db, cfg, path, &case.history.txs[case.target], case.target, &model, "ARM", &case.fault, &quiet, &mut cs)?;
    rep.commit = commit;
    rep.observed = obs;
    let mut next = case.target + 1;
    let mut observed = observed;
    if let Some((t2, f2)) = &case.second {
        // transactions between the two faulted commits run normally; the second faulted commit's
        // verification (independent parser = pre or post) covers what they left behind
        for (ti, spec) in case.history.txs.iter().enumerate().take(*t2).skip(next) {
            if spec.kind == TxKind::Reopen {
                continue;
            }
            let mut work = observed.clone();
            let mut at = None;
            let committed = catch(|| run_tx(&db, spec, false, &mut work, &quiet, &mut cs, &mut at, None)).map_err(Failure::from_panic)?.map_err(|mut f| {
                f.msg = format!("after the first faulted commit ({}; observed {} state): {}", rep.commit, rep.observed, f.msg);
                f.at(ti, at)
            })?;
            if committed {
                observed = work;
            }
        }
        let (o2, c2, ob2) = faulted_commit(&db, cfg, path, &case.history.txs[*t2], *t2, &observed, "ARM2", f2, &quiet, &mut cs).map_err(|mut f| {
            f.msg = format!("second fault, after the first faulted commit ({}; observed {} state): {}", rep.commit, rep.observed, f.msg);
            f
        })?;
        rep.commit2 = c2;
        rep.observed2 = ob2;
        observed = o2;
        next = *t2 + 1;
    }
    // further transactions on the same handle, every commit verified, then reopen
    let rest = HistoryCase { cfg: cfg.clone(), fresh_handles: false, txs: case.history.txs[next..].to_vec(), dance: case.history.dance };
    let mut opts = RunOpts::standard(path.to_path_buf());
    opts.start_model = Some(observed);
    opts.keep_file = true;
    let o = run_history_with(&rest, &opts, Some(db));
    rep.after_commits = o.stats.commits;
    o.result.map_err(|mut f| {
        f.msg = format!("after the faulted commit ({}; observed {} state), continuing on the same handle: {}", rep.commit, rep.observed, f.msg);
        f.tx += next;
        f
    })
}


/// One commit run with a fault armed, then judged: Err (not a panic), the file shows exactly the
/// pre- or the post-transaction state and is sound, a reader on the same handle agrees, DB::check
/// passes. Returns the observed state.
#[allow(clippy::too_many_arguments)]
fn faulted_commit(db: &jammdb::DB, cfg: &Cfg, path: &Path, spec: &TxSpec, target: usize, model: &MBucket, marker: &str, fault: &Fault, quiet: &RunOpts, cs: &mut CaseStats) -> Result<(MBucket, String, String), Failure> {
    let commit: String;
    let observed_s: String;
    let pre = model.clone();
    let mut work = model.clone();
    let mut at = None;
    if *fault == Fault::Fsize {
        let len = std::fs::metadata(path).map(|m| m.len()).unwrap_or(0);
        set_fsize_limit(Some(len));
    }
    mark(marker);
    let r = catch(|| run_tx(db, spec, false, &mut work, quiet, cs, &mut at, None));
    mark("DISARM");
    if *fault == Fault::Fsize {
        set_fsize_limit(None);
    }
    let post = work;
    match r {
        Err(p) => {
            let mut f = Failure::from_panic(p);
            f.msg = format!("commit panicked instead of returning an error: {}", f.msg);
            return Err(f.at(target, None));
        }
        Ok(Ok(_)) => commit = "ok".into(),
        Ok(Err(f)) => {
            if f.kind != "commit_err" {
                return Err(f.at(target, at));
            }
            commit = format!("err: {}", f.msg);
        }
    }
    // same handle: exactly the pre- or the post-transaction state. The independent parser decides
    // which one (it also sees the root bucket's counter, which the API does not expose), then the
    // reader on the same handle must agree.
    let (bytes, flen) = read_prefix(path, cfg.pagesize)?;
    let fr = fsck::fsck_len(&bytes, cfg.pagesize, flen);
    if !fr.ok() {
        return Err(Failure::new("fsck", format!("after the faulted commit ({}): file not sound: {}", commit, fr.errors.join("; "))));
    }
    let fd = fr.dump.as_ref().unwrap();
    let observed = if crate::model::diff(&post, fd, &mut vec![], true).is_none() {
        observed_s = "post".into();
        post.clone()
    } else if crate::model::diff(&pre, fd, &mut vec![], true).is_none() {
        observed_s = "pre".into();
        pre.clone()
    } else {
        let df = crate::model::diff(&pre, fd, &mut vec![], true).unwrap_or_default();
        return Err(Failure::new("half_applied", format!("after the faulted commit ({}) the file shows neither the pre- nor the post-transaction state: vs pre: {}", commit, df)));
    };
    let d = dump_db(db).map_err(|mut f| {
        f.msg = format!("reader on the same handle after the faulted commit: {}", f.msg);
        f
    })?;
    if let Some(df) = crate::model::diff(&observed, &d, &mut vec![], false) {
        return Err(Failure::new("half_applied", format!("after the faulted commit ({}) the file shows the {}-transaction state but a reader on the same handle does not: {}", commit, observed_s, df)));
    }
    if commit == "ok" && post != pre && observed_s != "post" {
        return Err(Failure::new("half_applied", "commit returned Ok but the old state is still the visible one".into()));
    }
    match catch(|| db.check()) {
        Err(p) => return Err(Failure::from_panic(p)),
        Ok(Err(e)) => return Err(Failure::new("dbcheck", format!("after the faulted commit ({}): DB::check(): {}", commit, e))),
        Ok(Ok(())) => {}
    }
    Ok((observed, commit, observed_s))
}

pub struct FaultRun {
    pub report: WorkerReport,
    pub fired: bool,
    pub writes_before_fault: usize,
    /// the second fault of a pair fired (inside the second faulted commit)
    pub fired2: bool,
}

pub fn run_fault(case: &C11Case, dir: &Path) -> Result<FaultRun, Failure> {
    let mut env: Vec<(&str, String)> = Vec::new();
    if let Fault::Nth { n, errno, short } = &case.fault {
        let mut s = format!("{}:{}", n, errno);
        if let Some(k) = short {
            s.push_str(&format!(":short={}", k));
        }
        env.push(("JV_SHIM_FAIL", s));
    }
    if let Some((_, Fault::Nth { n, errno, short })) = &case.second {
        let mut s = format!("{}:{}", n, errno);
        if let Some(k) = short {
            s.push_str(&format!(":short={}", k));
        }
        env.push(("JV_SHIM_FAIL2", s));
    }
    // reuse the C02 worker runner with a different mode; the case file format differs, so write our own
    let db = dir.join("w.db");
    let log = dir.join("w.log");
    let outp = dir.join("w.out.json");
    let casef = dir.join("w.case.json");
    for p in [&db, &log, &outp] {
        let _ = std::fs::remove_file(p);
    }
    std::fs::write(&casef, serde_json::to_string(case).unwrap()).map_err(|e| Failure::new("io", e.to_string()))?;
    let shim = super::c02::shim_path();
    if !shim.exists() {
        return Err(Failure::new("harness_panic", format!("{} missing (run setup)", shim.display())));
    }
    let mut cmd = std::process::Command::new(std::env::current_exe().unwrap());
    cmd.arg("worker").arg("fault").arg(&casef).arg(&db).arg(&outp);
    cmd.env("LD_PRELOAD", &shim).env("JV_SHIM_DB", &db).env("JV_SHIM_LOG", &log).env("RUST_BACKTRACE", "0");
    for (k, v) in env {
        cmd.env(k, v);
    }
    let out = cmd.output().map_err(|e| Failure::new("harness_panic", format!("cannot spawn worker: {}", e)))?;
    let evs = crate::crash::parse_log(&log).map_err(|e| Failure::new("harness_panic", e))?;
    let _ = std::fs::remove_file(&db);
    if !out.status.success() {
        return Err(Failure::new(
            "crash",
            format!("worker process died ({}) with fault {:?}: {}", out.status, case.fault, String::from_utf8_lossy(&out.stderr).lines().last().unwrap_or("")),
        ));
    }
    let report: WorkerReport = std::fs::read_to_string(&outp)
        .ok()
        .and_then(|s| serde_json::from_str(&s).ok())
        .ok_or_else(|| Failure::new("harness_panic", "worker wrote no report".into()))?;
    let mut armed = false;
    let mut armed2 = false;
    let mut fired = false;
    let mut fired2 = false;
    let mut writes = 0usize;
    let mut writes_before = 0usize;
    for e in &evs {
        match e {
            Ev::Marker(m) if m == "ARM" => armed = true,
            Ev::Marker(m) if m == "ARM2" => armed2 = true,
            Ev::Marker(m) if m == "DISARM" => {
                armed = false;
                armed2 = false;
            }
            Ev::Write { result, .. } if armed && *result > 0 => writes += 1,
            Ev::Fail { .. } if armed => {
                if !fired {
                    writes_before = writes;
                }
                fired = true;
            }
            Ev::Fail { .. } if armed2 => fired2 = true,
            _ => {}
        }
    }
    if case.fault == Fault::Fsize {
        fired = report.commit.starts_with("err");
        writes_before = writes;
    }
    Ok(FaultRun { report, fired, writes_before_fault: writes_before, fired2 })
}

/// Dry run: kinds of the counted calls of the target commit (1 write, 2 sync, 11 lseek), write lengths.
pub fn count_calls(case: &C11Case, dir: &Path) -> Result<Vec<(u32, usize)>, Failure> {
    let mut c = case.clone();
    c.fault = Fault::None;
    let db = dir.join("w.db");
    let log = dir.join("w.log");
    let outp = dir.join("w.out.json");
    let casef = dir.join("w.case.json");
    for p in [&db, &log, &outp] {
        let _ = std::fs::remove_file(p);
    }
    std::fs::write(&casef, serde_json::to_string(&c).unwrap()).map_err(|e| Failure::new("io", e.to_string()))?;
    let shim = super::c02::shim_path();
    let out = std::process::Command::new(std::env::current_exe().unwrap())
        .arg("worker").arg("fault").arg(&casef).arg(&db).arg(&outp)
        .env("LD_PRELOAD", &shim).env("JV_SHIM_DB", &db).env("JV_SHIM_LOG", &log).env("RUST_BACKTRACE", "0")
        .output()
        .map_err(|e| Failure::new("harness_panic", format!("cannot spawn worker: {}", e)))?;
    let _ = std::fs::remove_file(&db);
    if !out.status.success() {
        return Err(Failure::new("harness_panic", format!("dry-run worker died: {}", out.status)));
    }
    let report: WorkerReport = std::fs::read_to_string(&outp).ok().and_then(|s| serde_json::from_str(&s).ok()).unwrap_or_default();
    if let Some(f) = report.failure {
        // a failure without any fault injected is a finding of its own (C01 territory) — report it
        return Err(f);
    }
    let evs = crate::crash::parse_log(&log).map_err(|e| Failure::new("harness_panic", e))?;
    let mut armed = false;
    let mut calls = Vec::new();
    for e in &evs {
        match e {
            Ev::Marker(m) if m == "ARM" => armed = true,
            Ev::Marker(m) if m == "DISARM" => armed = false,
            Ev::Write { data, .. } if armed => calls.push((1u32, data.len())),
            Ev::Sync { .. } if armed => calls.push((2, 0)),
            Ev::Trunc { .. } if armed => calls.push((3, 0)),
            Ev::Other(11) if armed => calls.push((11, 0)),
            _ => {}
        }
    }
    Ok(calls)
}

pub fn fault_history(seed: u64) -> (HistoryCase, Vec<usize>) {
    if seed % 4 == 3 {
        // a free list spanning several pages (see C02): targets are the small commits that
        // rewrite it, the second of which finds the old run at the lowest free position
        let h = super::c02::big_freelist_history(seed);
        let commits: Vec<usize> = h.txs.iter().enumerate().filter(|(_, t)| t.kind == TxKind::Commit).map(|(i, _)| i).collect();
        // txs: 0 create, 1 fill, 2 delete bucket, 3.. small commits
        let t1 = commits[3.min(commits.len() - 2)];
        let t2 = commits[5.min(commits.len() - 2)];
        return (h, vec![t1, t2]);
    }
    let w = OpWeights { get: 1, read_misc: 1, seek_range: 1, bucket_delete: 3, delete_run: 6, ..OpWeights::default() };
    let strat = history(8, 14, w, (1, 0, 0, 0));
    let mut h = gen_one(&strat, seed);
    h.cfg = match seed % 3 {
        0 => Cfg { pagesize: 1024, num_pages: 4, strict: false, populate: false },
        1 => Cfg { pagesize: 1024, num_pages: 32, strict: seed % 2 == 0, populate: false },
        _ => Cfg { pagesize: 4096, num_pages: 8, strict: false, populate: false },
    };
    while h.txs.len() < 6 {
        let i = h.txs.len();
        h.txs.push(TxSpec { kind: TxKind::Commit, ops: vec![
            Op::PutRun { b: (i * 7919) as u16, base: vec![b'q'], start: (i * 3) as u16, step: 1, n: 6, klen: 0, vlen: 150 },
            Op::DeleteRun { b: (i * 104729) as u16, start: (i * 7001) as u16, n: 3 },
        ] });
    }
    // in a third of the histories every writer (before and after the fault) begins while a reader is open
    h.dance = if seed % 3 == 1 { 1 } else { 0 };
    // targets: an early commit (may need growth with a 4-page file) and a later one (page reuse)
    let n = h.txs.len();
    let t1 = 0usize;
    let t2 = (n / 2).max(1).min(n - 3);
    (h, vec![t1, t2])
}

fn shard(ctx: &ShardCtx, known: &Known) -> ShardOut {
    let mut out = ShardOut::default();
    let nh = ctx.tier.pick(3, 40);
    let mut exhaustive = true;
    for hi in 0..nh {
        let seed = mix(ctx.shard_seed("c11"), hi as u64);
        let (history, targets) = fault_history(seed);
        for target in targets {
            let base = C11Case { history: history.clone(), target, fault: Fault::None, second: None };
            let calls = match count_calls(&base, &ctx.scratch) {
                Ok(c) => c,
                Err(f) => {
                    record_case(ctx, &mut out, known, "c11", &base, CaseVerdict { failure: Some(f), nontrivial: false, classes: vec![] });
                    exhaustive = false;
                    continue;
                }
            };
            let mut faults: Vec<Fault> = Vec::new();
            for (i, (kind, len)) in calls.iter().enumerate() {
                let n = (i + 1) as u32;
                faults.push(Fault::Nth { n, errno: libc::EIO, short: None });
                faults.push(Fault::Nth { n, errno: libc::ENOSPC, short: None });
                if *kind == 1 {
                    for k in [1u32, 100, 512] {
                        if (k as usize) < *len {
                            faults.push(Fault::Nth { n, errno: libc::EIO, short: Some(k) });
                        }
                    }
                }
            }
            faults.push(Fault::Fsize);
            // pairs (sampled): a first fault in this commit and a second one in a later commit on
            // the same handle (the commit right after it, or one further on); the number of calls
            // of the later commit is taken from a fault-free dry run, so some second faults do not
            // fire (classified)
            let mut cases: Vec<(Fault, Option<(usize, Fault)>)> = faults.iter().map(|f| (f.clone(), None)).collect();
            let npairs = ctx.tier.pick(24, 160);
            let mut prng = Rng(mix(seed, 0x9a1f + target as u64));
            let later: Vec<usize> = (target + 1..history.txs.len()).filter(|t| history.txs[*t].kind == TxKind::Commit).take(3).collect();
            let mut later_calls: Vec<(usize, Vec<(u32, usize)>)> = Vec::new();
            for t2 in &later {
                if let Ok(c) = count_calls(&C11Case { history: history.clone(), target: *t2, fault: Fault::None, second: None }, &ctx.scratch) {
                    if !c.is_empty() {
                        later_calls.push((*t2, c));
                    }
                }
            }
            if !later_calls.is_empty() && !faults.is_empty() {
                for _ in 0..npairs {
                    let f1 = faults[prng.below(faults.len() as u64) as usize].clone();
                    let (t2, c2) = &later_calls[prng.below(later_calls.len() as u64) as usize];
                    let i2 = prng.below(c2.len() as u64) as usize;
                    let short = if c2[i2].0 == 1 && prng.chance(1, 2) {
                        let k = [1u32, 100, 512][prng.below(3) as usize];
                        if (k as usize) < c2[i2].1 { Some(k) } else { None }
                    } else {
                        None
                    };
                    let f2 = Fault::Nth { n: (i2 + 1) as u32, errno: if prng.chance(1, 2) { libc::EIO } else { libc::ENOSPC }, short };
                    cases.push((f1, Some((*t2, f2))));
                }
            }
            // structured pairs on the header writes (the last write call of each commit): torn
            // inside the record (100 bytes: past the transaction id, short of the checksum), torn
            // behind it (512), or failing outright, in both commits
            let last_write = |c: &Vec<(u32, usize)>| c.iter().rposition(|(k, _)| *k == 1);
            if let Some(h1) = last_write(&calls) {
                for (t2, c2) in &later_calls {
                    if let Some(h2) = last_write(c2) {
                        for (s1, s2) in [(Some(100u32), Some(100u32)), (Some(100), None), (Some(100), Some(512)), (Some(512), Some(100)), (None, Some(100))] {
                            cases.push((
                                Fault::Nth { n: (h1 + 1) as u32, errno: libc::EIO, short: s1 },
                                Some((*t2, Fault::Nth { n: (h2 + 1) as u32, errno: libc::EIO, short: s2 })),
                            ));
                        }
                    }
                }
            }
            for (fault, second) in cases {
                let case = C11Case { history: history.clone(), target, fault: fault.clone(), second: second.clone() };
                note_current(ctx, "c11", &case);
                let (verdict, classes) = match run_fault(&case, &ctx.scratch) {
                    Err(f) => (CaseVerdict { failure: Some(f), nontrivial: false, classes: vec![] }, vec![]),
                    Ok(fr) => {
                        let mut classes: Vec<String> = Vec::new();
                        if !fr.fired {
                            classes.push("fault did not fire (commit needed no such call)".into());
                        } else {
                            classes.push(format!("commit result: {}", if fr.report.commit.starts_with("err") { "Err" } else { fr.report.commit.as_str() }));
                            classes.push(format!("observed {} state", fr.report.observed));
                            classes.push(match &fault {
                                Fault::Nth { short: Some(_), .. } => "short write then error".to_string(),
                                Fault::Nth { errno, .. } if *errno == libc::ENOSPC => "ENOSPC".to_string(),
                                Fault::Nth { .. } => "EIO".to_string(),
                                Fault::Fsize => "file-size limit (extension fails)".to_string(),
                                Fault::None => "none".to_string(),
                            });
                        }
                        let mut failure = fr.report.failure.clone();
                        if failure.is_none() && fr.fired && fr.report.commit == "ok" && !matches!(fault, Fault::Nth { short: Some(_), .. }) {
                            failure = Some(Failure::new("error_swallowed", format!("fault {:?} fired but commit returned Ok", fault)));
                        }
                        if let Some((_, f2)) = &second {
                            if fr.fired2 {
                                classes.push(format!("pair: second fault fired in a later commit (result {}, observed {} state)", if fr.report.commit2.starts_with("err") { "Err" } else { fr.report.commit2.as_str() }, fr.report.observed2));
                                if failure.is_none() && fr.report.commit2 == "ok" && !matches!(f2, Fault::Nth { short: Some(_), .. }) {
                                    failure = Some(Failure::new("error_swallowed", format!("second fault {:?} fired but commit returned Ok", f2)));
                                }
                            } else {
                                classes.push("pair: second fault did not fire".into());
                            }
                        }
                        (CaseVerdict { failure, nontrivial: fr.fired && fr.writes_before_fault >= 1, classes: classes.clone() }, classes)
                    }
                };
                let _ = classes;
                record_case(ctx, &mut out, known, "c11", &case, verdict);
                if out.failures.len() >= 4 {
                    clear_current(ctx);
                    out.exhaustive = Some(false);
                    return out;
                }
            }
        }
    }
    clear_current(ctx);
    out.exhaustive = Some(exhaustive);
    out
}

pub fn replay(fr: &FailRec, dir: &std::path::Path) -> Option<Failure> {
    let case: C11Case = match serde_json::from_value(fr.case.clone()) {
        Ok(c) => c,
        Err(e) => return Some(Failure::new("harness_panic", format!("bad C11 case: {}", e))),
    };
    match run_fault(&case, dir) {
        Err(f) => Some(f),
        Ok(r) => r.report.failure,
    }
}
