//! C12 — damage to one header page falls back to the other.

use super::CheckDef;
use crate::fsck;
use crate::interp::*;
use crate::model::MBucket;
use crate::ops::*;
use crate::panics::catch;
use crate::runner::*;
use serde::{Deserialize, Serialize};

pub fn def() -> CheckDef {
    CheckDef {
        meta: CheckMeta {
            id: "C12",
            level: "fault_enumeration",
            rule: "files after n = 0..N commits (N = 6 quick / 16 thorough) of generated histories (page sizes 1024, 4096 and, in one shard of eight, 5000 from a 4-page file, i.e. grown to a length that is not a whole number of pages; a quarter of the shards add files in which a bucket of N page-sized values was just deleted (N sweeping so that the free list, written to a run taken from the end of the file, passes through exactly 123 and 251 ids), with a short list of damages; two shards of eight open with map-populate on, one of them also with strict mode and from a 4-page file); target = newest or older header page; damage = every offset of the header page x {xor 0xFF, xor 0x01, set 0, one seeded value} (thorough: all 255 alternatives on every byte the format defines: offset 8 and 32-43, 48-103), zeroing the page, every word-aligned range of the first 128 bytes zeroed (and short ranges / ranges to the end set to 0xFF), seeded multi-byte overwrites inside and outside the record, and tails from every 8-byte boundary filled with zeros / 0xFF / seeded bytes / the page's previous contents (a partially written header). Damages that leave the bytes unchanged are skipped. Oracle: opening a copy through the public API succeeds (no panic) and a full dump equals the state recorded by the intact header (S_n if the older header was hit, S_{n-1} if the newest was) whenever a byte the format defines changed; if only undefined bytes changed (page-header id/count/overflow, padding, bytes past the record) either state is accepted. Non-trivial = damage that changes a defined byte of the NEWEST header of a file whose last commit changed the state. Distinct = (file, target, damage).",
            assumptions: &[
                "single-process open of a copy; the other header and all data pages are intact",
                "a checksum collision under random multi-byte damage (2^-64) is ignored",
            ],
        },
        shard,
        nshards: NSHARDS,
    }
}

#[derive(Serialize, Deserialize, Clone, Debug, PartialEq, Eq, Hash)]
pub enum Damage {
    Xor { off: usize, mask: u8 },
    Set { off: usize, val: u8 },
    /// the byte is doubled (`left`) or halved: a field that stays plausible (another power of two)
    Shift { off: usize, left: bool },
    ZeroPage,
    Multi { seed: u64, count: u8, in_record: bool },
    /// bytes from `off` to the end of the page replaced: fill 0 zeros, 1 0xFF, 2 seeded, 3 previous contents of the page
    Tail { off: usize, fill: u8 },
    /// bytes [from, to) set to `val` (word-aligned ranges inside the first 128 bytes)
    Fill { from: usize, to: usize, val: u8 },
}

#[derive(Serialize, Deserialize, Clone, Debug)]
pub struct C12Case {
    pub history: HistoryCase,
    /// number of transactions of the history to run
    pub n: usize,
    pub newest: bool,
    pub damage: Damage,
    /// Some(k): after the first k transactions both headers are re-encoded in the legacy
    /// (<= 0.10, SHA3) format, the remaining n - k transactions run on that file (k = n: a purely
    /// legacy file; k = n - 1: newest header current format, older one still legacy)
    #[serde(default)]
    pub legacy_after: Option<usize>,
}

pub fn defined(off: usize) -> bool {
    off == 8 || (32..44).contains(&off) || (48..104).contains(&off)
}

pub struct Prepared {
    pub bytes: Vec<u8>,
    pub s_n: MBucket,
    pub s_prev: MBucket,
    pub newest_slot: usize,
    /// contents of each header page before the last write to it (if known)
    pub prev_page: [Option<Vec<u8>>; 2],
    pub state_changed: bool,
    pub ps: usize,
    /// header slot i carries the legacy (SHA3) record: its digest bytes 104..128 are defined too
    pub legacy_slot: [bool; 2],
}

pub fn prepare(history: &HistoryCase, n: usize, legacy_after: Option<usize>, path: &std::path::Path) -> Result<Prepared, Failure> {
    let mut h = history.clone();
    h.txs.truncate(n);
    let mut opts = RunOpts::standard(path.to_path_buf());
    opts.keep_file = true;
    opts.final_reopen = false;
    opts.snap_headers = true;
    let o = match legacy_after {
        None => {
            let o = run_history(&h, &opts);
            if let Err(f) = o.result {
                return Err(f);
            }
            o
        }
        Some(k) => {
            let k = k.min(h.txs.len());
            let mut h1 = h.clone();
            h1.txs.truncate(k);
            let o1 = run_history(&h1, &opts);
            if let Err(f) = o1.result {
                return Err(f);
            }
            let ps = history.cfg.pagesize;
            let mut img = std::fs::read(path).map_err(|e| Failure::new("io", e.to_string()))?;
            crate::golden::to_legacy(&mut img, ps).map_err(|e| Failure::new("harness_panic", e))?;
            std::fs::write(path, &img).map_err(|e| Failure::new("io", e.to_string()))?;
            let mut h2 = h.clone();
            h2.txs.drain(..k);
            let mut opts2 = opts.clone();
            opts2.start_model = Some(o1.model.clone());
            let mut o2 = run_history(&h2, &opts2);
            if let Err(f) = o2.result {
                return Err(f);
            }
            // one history: commit models and header snapshots of both phases (the first phase's
            // snapshots re-encoded, as the file was)
            let mut cms = o1.commit_models.clone();
            cms.append(&mut o2.commit_models);
            let mut snaps: Vec<Vec<u8>> = o1.header_snaps.iter().map(|s| { let mut s = s.clone(); let _ = crate::golden::to_legacy(&mut s, ps); s }).collect();
            snaps.append(&mut o2.header_snaps);
            o2.commit_models = cms;
            o2.header_snaps = snaps;
            o2
        }
    };
    let bytes = std::fs::read(path).map_err(|e| Failure::new("io", e.to_string()))?;
    let _ = std::fs::remove_file(path);
    let ps = history.cfg.pagesize as usize;
    let (chosen, _) = fsck::choose_meta(&bytes, ps as u64);
    let newest_slot = chosen.map(|m| m.slot as usize).unwrap_or(0);
    let nc = o.commit_models.len();
    let s_n = o.model.clone();
    let s_prev = if nc >= 2 { o.commit_models[nc - 2].clone() } else { MBucket::default() };
    // previous contents of the newest header page = that page two commits ago (or the initial page)
    let mut prev_page: [Option<Vec<u8>>; 2] = [None, None];
    if nc >= 2 {
        let snap = &o.header_snaps[nc - 2];
        prev_page[newest_slot] = Some(snap[newest_slot * ps..(newest_slot + 1) * ps].to_vec());
    }
    if nc >= 3 {
        let other = 1 - newest_slot;
        let snap = &o.header_snaps[nc - 3];
        prev_page[other] = Some(snap[other * ps..(other + 1) * ps].to_vec());
    }
    let mut legacy_slot = [false, false];
    for slot in 0..2u8 {
        let (new_fmt, old_fmt) = fsck::parse_meta(&bytes, ps as u64, slot);
        legacy_slot[slot as usize] = new_fmt.is_none() && old_fmt.is_some();
    }
    Ok(Prepared { state_changed: s_n != s_prev, bytes, s_n, s_prev, newest_slot, prev_page, ps, legacy_slot })
}

/// Applies the damage to a copy of the header page; returns (damaged page, changed_any, changed_defined).
pub fn apply(p: &Prepared, newest: bool, d: &Damage) -> (Vec<u8>, bool, bool) {
    let slot = if newest { p.newest_slot } else { 1 - p.newest_slot };
    let pbase = slot * p.ps;
    // work on the header page only (the file may be megabytes)
    let base = 0usize;
    let mut b = p.bytes[pbase..pbase + p.ps].to_vec();
    match d {
        Damage::Xor { off, mask } => b[base + off] ^= mask,
        Damage::Set { off, val } => b[base + off] = *val,
        Damage::Shift { off, left } => b[base + off] = if *left { b[base + off] << 1 } else { b[base + off] >> 1 },
        Damage::ZeroPage => {
            for x in &mut b[base..base + p.ps] {
                *x = 0;
            }
        }
        Damage::Multi { seed, count, in_record } => {
            let mut r = Rng(*seed);
            for _ in 0..*count {
                let off = if *in_record { 32 + r.below(72) as usize } else { r.below(p.ps as u64) as usize };
                b[base + off] = r.next() as u8;
            }
        }
        Damage::Fill { from, to, val } => {
            for i in *from..(*to).min(p.ps) {
                b[base + i] = *val;
            }
        }
        Damage::Tail { off, fill } => {
            let mut r = Rng(*off as u64 * 31 + *fill as u64);
            for i in *off..p.ps {
                b[base + i] = match fill {
                    0 => 0,
                    1 => 0xff,
                    2 => r.next() as u8,
                    _ => match &p.prev_page[slot] {
                        Some(pp) => pp[i],
                        None => 0,
                    },
                };
            }
        }
    }
    let mut any = false;
    let mut def = false;
    for i in 0..p.ps {
        if b[base + i] != p.bytes[pbase + i] {
            any = true;
            if defined(i) || (p.legacy_slot[slot] && (104..128).contains(&i)) {
                def = true;
            }
        }
    }
    (b, any, def)
}

/// Writes the undamaged image to `path` (done once per prepared file).
pub fn install(p: &Prepared, path: &std::path::Path) -> Result<(), Failure> {
    std::fs::write(path, &p.bytes).map_err(|e| Failure::new("io", e.to_string()))
}

fn patch_page(path: &std::path::Path, off: u64, data: &[u8]) -> Result<(), Failure> {
    use std::io::{Seek, SeekFrom, Write};
    let mut f = std::fs::OpenOptions::new().write(true).open(path).map_err(|e| Failure::new("io", e.to_string()))?;
    f.seek(SeekFrom::Start(off)).map_err(|e| Failure::new("io", e.to_string()))?;
    f.write_all(data).map_err(|e| Failure::new("io", e.to_string()))
}

/// The image must already be installed at `path`; only the damaged header page is rewritten
/// and it is restored afterwards (opening never modifies the file — C06 checks that).
pub fn check_one(p: &Prepared, cfg: &Cfg, newest: bool, d: &Damage, path: &std::path::Path) -> (Result<(), Failure>, bool, bool) {
    let (b, any, def) = apply(p, newest, d);
    if !any {
        return (Ok(()), false, false);
    }
    let slot = if newest { p.newest_slot } else { 1 - p.newest_slot };
    let base = slot * p.ps;
    if let Err(f) = patch_page(path, base as u64, &b[..]) {
        return (Err(f), any, def);
    }
    let what = format!("{} header damaged by {:?}", if newest { "newest" } else { "older" }, d);
    let r = catch(|| -> Result<(), Failure> {
        // a configuration that equals the library defaults is opened the way most applications do
        // it: with plain `OpenOptions::new()`, no option set explicitly
        let os_ps = unsafe { libc::sysconf(libc::_SC_PAGESIZE) } as u64;
        let plain = cfg.pagesize == os_ps && cfg.num_pages == 32 && !cfg.strict && !cfg.populate;
        let opened = if plain {
            match catch(|| jammdb::OpenOptions::new().open(path)) {
                Err(p) => Err(Failure::from_panic(p)),
                Ok(Err(e)) => Err(Failure::new("open_err", format!("open (default options) failed: {}", e))),
                Ok(Ok(db)) => Ok(db),
            }
        } else {
            open_db(cfg, path)
        };
        let db = opened.map_err(|mut f| {
            f.msg = format!("{}: {}", what, f.msg);
            f
        })?;
        let d = dump_db(&db).map_err(|mut f| {
            f.msg = format!("{}: {}", what, f.msg);
            f
        })?;
        // the state the surviving header records must also be intact as a whole (its free list included)
        match catch(|| db.check()) {
            Ok(Ok(())) => {}
            Ok(Err(e)) => return Err(Failure::new("dbcheck", format!("{}: opened, but DB::check() reports: {}", what, e))),
            Err(pn) => {
                let mut f = Failure::from_panic(pn);
                f.msg = format!("{}: DB::check() panicked: {}", what, f.msg);
                return Err(f);
            }
        }
        let expected_newest_hit = &p.s_prev;
        let expected_older_hit = &p.s_n;
        if def {
            let exp = if newest { expected_newest_hit } else { expected_older_hit };
            compare_dump(exp, &d, &format!("{}: expected the state of the intact header", what))
        } else if crate::model::diff(expected_older_hit, &d, &mut vec![], false).is_none() || crate::model::diff(expected_newest_hit, &d, &mut vec![], false).is_none() {
            // (the root bucket's own counter is not visible through the API: compared without it)
            Ok(())
        } else {
            let vs_prev = crate::model::diff(&p.s_prev, &d, &mut vec![], false).unwrap_or_else(|| "equal".into());
            compare_dump(&p.s_n, &d, &format!("{} (only undefined bytes changed; against the previous state: {})", what, vs_prev))
        }
    });
    let restore = patch_page(path, base as u64, &p.bytes[base..base + p.ps]);
    let r = match r {
        Err(pn) => {
            let mut f = Failure::from_panic(pn);
            f.msg = format!("{}: {}", what, f.msg);
            Err(f)
        }
        Ok(r) => r,
    };
    if let (Ok(()), Err(f)) = (&r, restore) {
        return (Err(f), any, def);
    }
    (r, any, def)
}

pub fn damages(tier: Tier, ps: usize, seed: u64) -> Vec<Damage> {
    let mut v = Vec::new();
    let mut r = Rng(seed);
    for off in 0..ps {
        v.push(Damage::Xor { off, mask: 0xff });
        v.push(Damage::Xor { off, mask: 0x01 });
        v.push(Damage::Set { off, val: 0 });
        v.push(Damage::Set { off, val: r.next() as u8 });
        if defined(off) {
            v.push(Damage::Shift { off, left: true });
            v.push(Damage::Shift { off, left: false });
        }
        if tier == Tier::Thorough && defined(off) {
            for m in 2..=254u8 {
                v.push(Damage::Xor { off, mask: m });
            }
        }
    }
    v.push(Damage::ZeroPage);
    for i in 0..40 {
        v.push(Damage::Multi { seed: r.next(), count: 1 + (i % 9) as u8, in_record: i % 2 == 0 });
    }
    for off in (0..ps.min(160)).step_by(8) {
        for fill in 0..4u8 {
            v.push(Damage::Tail { off, fill });
        }
    }
    // every word-aligned range inside the page header + record zeroed / set to 0xFF
    for a in (0..128).step_by(8) {
        for z in ((a + 8)..=128).step_by(8) {
            v.push(Damage::Fill { from: a, to: z, val: 0 });
            if (z - a) <= 16 || z == 128 {
                v.push(Damage::Fill { from: a, to: z, val: 0xff });
            }
        }
    }
    for off in [256usize, 512, 768] {
        if off < ps {
            for fill in 0..4u8 {
                v.push(Damage::Tail { off, fill });
            }
        }
    }
    v
}

fn shard(ctx: &ShardCtx, known: &Known) -> ShardOut {
    let mut out = ShardOut::default();
    let path = ctx.db_path("c12.db");
    let n_max = ctx.tier.pick(6, 16);
    // one generated history per shard (thorough: two), every commit count, both targets
    let nh = ctx.tier.pick(1, 2);
    let w = OpWeights { bucket_delete: 3, ..OpWeights::default() };
    for hi in 0..nh {
        let strat = history(n_max + 2, 12, w, (1, 0, 0, 0));
        let mut hist = gen_one(&strat, mix(ctx.shard_seed("c12"), hi as u64));
        hist.cfg = match (ctx.shard + hi) % 8 {
            3 | 7 => Cfg { pagesize: 4096, num_pages: 32, strict: false, populate: false },
            // a page size that does not divide the growth step, from a 4-page file: the file has
            // grown by the first commits and its length is not a whole number of pages
            5 => Cfg { pagesize: 5000, num_pages: 4, strict: false, populate: false },
            // the damaged file is reopened with map-populate / strict mode on
            1 => Cfg { pagesize: 1024, num_pages: 32, strict: false, populate: true },
            6 => Cfg { pagesize: 1024, num_pages: 4, strict: true, populate: true },
            _ => Cfg { pagesize: 1024, num_pages: 32, strict: false, populate: false },
        };
        // pad to at least n_max transactions with simple state-changing ones
        while hist.txs.len() < n_max {
            let i = hist.txs.len();
            hist.txs.push(TxSpec {
                kind: TxKind::Commit,
                ops: vec![Op::PutRun { b: (i * 9973) as u16, base: vec![b'p'], start: i as u16, step: 1, n: 3, klen: 0, vlen: 100 }],
            });
        }
        for n in 0..=n_max.min(hist.txs.len()) {
            for legacy_after in variants(n, ctx.shard + hi) {
            let p = match prepare(&hist, n, legacy_after, &path) {
                Ok(p) => p,
                Err(f) => {
                    let case = C12Case { history: hist.clone(), n, newest: true, damage: Damage::ZeroPage, legacy_after };
                    record_case(ctx, &mut out, known, "c12", &case, CaseVerdict { failure: Some(f), nontrivial: false, classes: vec![] });
                    break;
                }
            };
            let ds = damages(ctx.tier, p.ps, mix(ctx.shard_seed("dmg"), n as u64));
            if let Err(f) = install(&p, &path) {
                out.inconclusive.push(f.msg);
                break;
            }
            for newest in [true, false] {
                for d in &ds {
                    let (r, any, def) = check_one(&p, &hist.cfg, newest, d, &path);
                    if !any {
                        out.excluded += 1;
                        continue;
                    }
                    let nt = def && newest && p.state_changed;
                    let mut classes = Vec::new();
                    classes.push(if def { "defined byte changed".to_string() } else { "only undefined bytes changed".to_string() });
                    classes.push(format!("{} header", if newest { "newest" } else { "older" }));
                    match legacy_after {
                        Some(k) if k >= n => classes.push("file with legacy headers".to_string()),
                        Some(_) => classes.push("file with one legacy and one current header".to_string()),
                        None => {}
                    }
                    classes.push(match d {
                        Damage::Shift { .. } => "single byte doubled / halved (plausible field)".to_string(),
                        Damage::Xor { .. } | Damage::Set { .. } => "single byte".to_string(),
                        Damage::ZeroPage => "zeroed page".to_string(),
                        Damage::Multi { .. } => "multi-byte overwrite".to_string(),
                        Damage::Fill { .. } => "word-aligned range zeroed / set".to_string(),
                        Damage::Tail { fill: 3, .. } => "tail = previous page contents (torn write)".to_string(),
                        Damage::Tail { .. } => "tail overwrite".to_string(),
                    });
                    if r.is_err() || nt && out.samples.len() < 3 && out.evaluations % 997 == 0 {
                        let case = C12Case { history: hist.clone(), n, newest, damage: d.clone(), legacy_after };
                        note_current(ctx, "c12", &case);
                        record_case(ctx, &mut out, known, "c12", &case, CaseVerdict { failure: r.err(), nontrivial: nt, classes });
                    } else {
                        // cheap path: count without serialising the history
                        out.evaluations += 1;
                        for c in &classes {
                            out.class(c);
                        }
                        if nt {
                            out.nontrivial.insert(mix(mix(hash_json(d), n as u64), mix(ctx.shard as u64 * 2 + hi as u64, newest as u64 + 2 * legacy_after.map(|k| k as u64 + 1).unwrap_or(0))));
                        }
                    }
                    if out.failures.len() >= 5 {
                        clear_current(ctx);
                        return out;
                    }
                }
            }
            }
        }
    }
    // files whose free list exactly fills its page run (123 or 251 ids at page size 1024): the
    // surviving header must still be accepted when the other one is damaged
    if ctx.shard % 4 == 1 {
        boundary_files(ctx, known, &mut out, &path);
    }
    clear_current(ctx);
    out.exhaustive = Some(true);
    out
}

fn boundary_files(ctx: &ShardCtx, known: &Known, out: &mut ShardOut, path: &std::path::Path) {
    // a bucket of N page-sized values is filled in one commit and deleted in the next: nothing is
    // allocatable in that commit, so the new free-list run comes from the end of the file and
    // holds exactly the N + few ids the deletion produced; N sweeps so that the count passes
    // through the capacity of a one-page (123 ids) and a two-page (251 ids) run
    let quarter = (ctx.shard / 4) as u16;
    let ns: Vec<u16> = (0..12u16).map(|i| 100 + quarter * 12 + i).chain((0..12u16).map(|i| 226 + quarter * 12 + i)).collect();
    let mut files: Vec<(HistoryCase, usize)> = Vec::new();
    for n in ns {
        let mut fill = vec![Op::GetOrCreate { b: 0, k: KeySel::Lit(b"v".to_vec()), kk: 2 }];
        let mut at = 0u16;
        while at < n {
            let m = (n - at).min(250) as u8;
            fill.push(Op::PutRun { b: 0, base: vec![b'p'], start: at, step: 1, n: m, klen: 0, vlen: 900 });
            at += m as u16;
        }
        let txs = vec![
            TxSpec { kind: TxKind::Commit, ops: fill },
            TxSpec { kind: TxKind::Commit, ops: vec![Op::DeleteBucket { b: 0, k: KeySel::Lit(b"v".to_vec()), kk: 2 }] },
            TxSpec { kind: TxKind::Commit, ops: vec![Op::GetOrCreate { b: 0, k: KeySel::Lit(b"w".to_vec()), kk: 2 }] },
        ];
        // a short-lived reader around every writer keeps the previous commit's freed pages pending,
        // so the deleting commit finds nothing allocatable and takes its free-list run from the end of the file
        files.push((HistoryCase { cfg: Cfg { pagesize: 1024, num_pages: 32, strict: false, populate: false }, fresh_handles: false, txs, dance: 1 }, 2));
    }
    let ds: Vec<Damage> = vec![
        Damage::Xor { off: 8, mask: 0xff },
        Damage::Xor { off: 40, mask: 1 },
        Damage::Xor { off: 72, mask: 0x10 },
        Damage::Xor { off: 88, mask: 1 },
        Damage::Xor { off: 97, mask: 0xff },
        Damage::ZeroPage,
        Damage::Tail { off: 64, fill: 0 },
        Damage::Tail { off: 96, fill: 3 },
    ];
    for (hist, n0) in files {
        // the list written by transaction n0 is referenced by the newest header after n0 transactions and by the older one after the next commit
        for n in [n0, n0 + 1] {
            let p = match prepare(&hist, n, None, path) {
                Ok(p) => p,
                Err(_) => continue,
            };
            if install(&p, path).is_err() {
                continue;
            }
            if std::env::var("JV_C12_DEBUG").is_ok() {
                let rep = fsck::fsck(&p.bytes, hist.cfg.pagesize);
                let (m, _) = fsck::choose_meta(&p.bytes, hist.cfg.pagesize);
                let fl = m.as_ref().map(|m| m.freelist_page as usize).unwrap_or(0);
                let ov = u64::from_le_bytes(p.bytes[fl * 1024 + 24..fl * 1024 + 32].try_into().unwrap());
                let cnt = u64::from_le_bytes(p.bytes[fl * 1024 + 16..fl * 1024 + 24].try_into().unwrap());
                eprintln!("C12-DEBUG n0 {} n {} free_entries {} count_field {} overflow {} newest_slot {}", n0, n, rep.stats.free_entries, cnt, ov, p.newest_slot);
            }
            for newest in [true, false] {
                for d in &ds {
                    let (r, any, def) = check_one(&p, &hist.cfg, newest, d, path);
                    if !any {
                        continue;
                    }
                    let case = C12Case { history: hist.clone(), n, newest, damage: d.clone(), legacy_after: None };
                    if r.is_err() {
                        note_current(ctx, "c12", &case);
                    }
                    let classes = vec!["free list exactly page-full in the surviving header's state (or next to it)".to_string(), format!("{} header", if newest { "newest" } else { "older" })];
                    if r.is_err() {
                        record_case(ctx, out, known, "c12", &case, CaseVerdict { failure: r.err(), nontrivial: def, classes });
                    } else {
                        out.evaluations += 1;
                        for c in &classes {
                            out.class(c);
                        }
                    }
                }
            }
        }
    }
}

/// Header formats per commit count: always the current format; on two of three (n, shard)
/// combinations also a purely legacy file or a file one commit past its conversion.
fn variants(n: usize, salt: usize) -> Vec<Option<usize>> {
    match (n + salt) % 3 {
        1 => vec![None, Some(n)],
        2 if n >= 1 => vec![None, Some(n - 1)],
        _ => vec![None],
    }
}

pub fn replay(fr: &FailRec, dir: &std::path::Path) -> Option<Failure> {
    let case: C12Case = match serde_json::from_value(fr.case.clone()) {
        Ok(c) => c,
        Err(e) => return Some(Failure::new("harness_panic", format!("bad C12 case: {}", e))),
    };
    let path = dir.join("c12.db");
    let p = match prepare(&case.history, case.n, case.legacy_after, &path) {
        Ok(p) => p,
        Err(f) => return Some(f),
    };
    if let Err(f) = install(&p, &path) {
        return Some(f);
    }
    let r = check_one(&p, &case.history.cfg, case.newest, &case.damage, &path).0.err();
    let _ = std::fs::remove_file(&path);
    r
}
