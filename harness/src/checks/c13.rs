//! C13 — only one process at a time has the database open (placeholder until built).
pub fn worker(_args: &[String]) -> i32 {
    2
}
