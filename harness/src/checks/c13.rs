//! C13 — only one process at a time has the database open.

use super::CheckDef;
use crate::interp::Failure;
use crate::panics::catch;
use crate::runner::*;
use serde::{Deserialize, Serialize};
use std::path::{Path, PathBuf};
use std::process::{Child, Command, Stdio};
use std::time::{Duration, Instant};

pub fn def() -> CheckDef {
    CheckDef {
        meta: CheckMeta {
            id: "C13",
            level: "exploration",
            rule: "orchestrations of 2-3 worker processes on one path (file existing or not yet created); each worker opens the database, reads all marker keys, commits its own marker, holds the database for a generated time and closes. Generated: start order and offsets (0-40 ms), hold times (0-25 ms), and per worker an optional gate at a libc boundary (before open64, after open64 returned, before / after the file-size query (statx), the 1st/2nd write of the creator, fsync, mmap64, close) at which the LD_PRELOAD shim parks the process until the orchestrator releases it; all gate choices x release orders for two processes; for three: structured chains (A parked while holding, B queued behind it, C started only after A or B was released and has closed) and seeded samples. A worker that does not reach its gate within a timeout is taken to be waiting for the kernel lock and the orchestrator moves on: timing decides which interleaving is produced, never the verdict. Oracle from CLOCK_MONOTONIC timestamps taken by the workers (open returned / about to close): the intervals are pairwise disjoint; every worker sees the marker of every worker whose interval ended before its own began; every worker exits 0 (an Err or panic from open is a failure to wait); each worker also churns a bucket of its own and runs DB::check(); in a third of the cases a worker also reads its own file through a second descriptor while it holds the database (a backup copy or size probe, which must not let the next opener in), in a quarter a worker clones its handle, drops the original and goes on with the clone, and in a quarter a worker opens the file through a symbolic link; a family of waiters (and a quarter of the sampled later openers) has a SIGUSR1 handler installed without SA_RESTART and receives 1-12 signals, each sent only while /proc/self/task/<tid>/syscall shows the thread inside flock(2), i.e. while it waits for the holder; an open that returns an Interrupted I/O error is retried by the worker as an application would (that is not a failure: the opener is not inside), any other error is; and after all have closed the file must still hold every marker and every worker's data and pass the independent parser. Non-trivial = orchestration in which a second open was issued while another process held the database or was creating it. Distinct = hash of the orchestration.",
            assumptions: &[
                "flock itself is a raw syscall invisible to the shim; its effect is observed",
                "signals are delivered only while the opener is blocked in flock (checked through /proc immediately before pthread_kill); a signal that lands just after the lock was granted meets only calls on a regular file, which do not fail with EINTR",
                "three processes are sampled, not enumerated",
            ],
        },
        shard,
        nshards: NSHARDS,
    }
}

#[derive(Serialize, Deserialize, Clone, Debug, PartialEq, Eq, Hash)]
pub struct ProcSpec {
    /// "" = no gate, else "<event>:<n>"
    pub gate: String,
    pub hold_ms: u32,
    pub start_delay_ms: u32,
    /// start this process only after the gate of process `n` has been released (a late opener)
    #[serde(default)]
    pub start_after_release_of: Option<usize>,
    /// while it holds the database the process reads the file through a second descriptor
    #[serde(default)]
    pub peek: bool,
    /// the process clones its database handle, drops the original and goes on with the clone
    #[serde(default)]
    pub clone_drop: bool,
    /// the process opens the database through a symbolic link to the file
    #[serde(default)]
    pub via_symlink: bool,
    /// number of signals (handler installed without SA_RESTART) sent to the process while it is
    /// blocked in flock(2) inside `open`; an open that fails with `Interrupted` is retried
    #[serde(default)]
    pub intr: u32,
}

#[derive(Serialize, Deserialize, Clone, Debug, PartialEq, Eq, Hash)]
pub struct C13Case {
    pub file_exists: bool,
    pub procs: Vec<ProcSpec>,
    /// order in which gated processes are released (indices into procs)
    pub release: Vec<usize>,
}

#[derive(Serialize, Deserialize, Clone, Debug, Default)]
pub struct ProcReport {
    pub id: usize,
    pub t_call: u64,
    pub t_open: u64,
    pub t_close: u64,
    pub seen: Vec<String>,
    pub err: Option<String>,
    /// signals that were sent while the process was blocked in flock(2)
    #[serde(default)]
    pub intr_sent: u32,
    /// opens that returned `Interrupted` and were retried
    #[serde(default)]
    pub intr_retries: u32,
}

fn now_ns() -> u64 {
    let mut ts = libc::timespec { tv_sec: 0, tv_nsec: 0 };
    unsafe {
        libc::clock_gettime(libc::CLOCK_MONOTONIC, &mut ts);
    }
    ts.tv_sec as u64 * 1_000_000_000 + ts.tv_nsec as u64
}

extern "C" fn on_sigusr1(_: libc::c_int) {}

/// Signals the calling thread with SIGUSR1 (handler without SA_RESTART) up to `k` times, each time
/// only when /proc says the thread is inside the flock system call, i.e. waiting for the holder.
struct Interrupter {
    stop: std::sync::Arc<std::sync::atomic::AtomicBool>,
    sent: std::sync::Arc<std::sync::atomic::AtomicU32>,
    h: Option<std::thread::JoinHandle<()>>,
}

impl Interrupter {
    fn start(k: u32) -> Interrupter {
        use std::sync::atomic::{AtomicBool, AtomicU32, Ordering};
        let stop = std::sync::Arc::new(AtomicBool::new(false));
        let sent = std::sync::Arc::new(AtomicU32::new(0));
        let (tid, pth) = unsafe {
            let mut sa: libc::sigaction = std::mem::zeroed();
            sa.sa_sigaction = on_sigusr1 as extern "C" fn(libc::c_int) as usize;
            sa.sa_flags = 0;
            libc::sigemptyset(&mut sa.sa_mask);
            libc::sigaction(libc::SIGUSR1, &sa, std::ptr::null_mut());
            (libc::syscall(libc::SYS_gettid) as i64, libc::pthread_self())
        };
        let (stop2, sent2) = (stop.clone(), sent.clone());
        let h = std::thread::spawn(move || {
            // the helper itself never takes the signal
            unsafe {
                let mut set: libc::sigset_t = std::mem::zeroed();
                libc::sigemptyset(&mut set);
                libc::sigaddset(&mut set, libc::SIGUSR1);
                libc::pthread_sigmask(libc::SIG_BLOCK, &set, std::ptr::null_mut());
            }
            let path = format!("/proc/self/task/{}/syscall", tid);
            let want = format!("{} ", libc::SYS_flock);
            while !stop2.load(Ordering::SeqCst) && sent2.load(Ordering::SeqCst) < k {
                let in_flock = std::fs::read_to_string(&path).map(|s| s.starts_with(&want)).unwrap_or(false);
                if in_flock && !stop2.load(Ordering::SeqCst) {
                    unsafe {
                        libc::pthread_kill(pth, libc::SIGUSR1);
                    }
                    sent2.fetch_add(1, Ordering::SeqCst);
                    std::thread::sleep(Duration::from_micros(1500));
                } else {
                    std::thread::sleep(Duration::from_micros(200));
                }
            }
        });
        Interrupter { stop, sent, h: Some(h) }
    }
    fn finish(mut self) -> u32 {
        self.stop.store(true, std::sync::atomic::Ordering::SeqCst);
        if let Some(h) = self.h.take() {
            let _ = h.join();
        }
        self.sent.load(std::sync::atomic::Ordering::SeqCst)
    }
}

/// Worker side: `jv worker proc <db> <id> <hold_ms> <out.json>`
pub fn worker(args: &[String]) -> i32 {
    if args.len() < 5 {
        return 2;
    }
    let db_path = PathBuf::from(&args[1]);
    let id: usize = args[2].parse().unwrap_or(0);
    let hold: u64 = args[3].parse().unwrap_or(0);
    let out = &args[4];
    let peek = args.iter().skip(5).any(|a| a == "peek");
    // the database handle is cloned and the original dropped at once; the clone is used from then on
    let clone_drop = args.iter().skip(5).any(|a| a == "clone");
    let intr: u32 = args.iter().skip(5).find_map(|a| a.strip_prefix("intr=").and_then(|v| v.parse().ok())).unwrap_or(0);
    let mut rep = ProcReport { id, ..Default::default() };
    rep.t_call = now_ns();
    let r = catch(|| -> Result<(), String> {
        // an application whose signal handlers are installed without SA_RESTART retries an open
        // that was interrupted while it waited for the lock
        let interrupter = if intr > 0 { Some(Interrupter::start(intr)) } else { None };
        let db = loop {
            match jammdb::OpenOptions::new().pagesize(1024).num_pages(16).open(&db_path) {
                Ok(db) => break db,
                Err(jammdb::Error::Io(e)) if intr > 0 && e.kind() == std::io::ErrorKind::Interrupted && rep.intr_retries < 10_000 => rep.intr_retries += 1,
                Err(e) => return Err(format!("open: {}", e)),
            }
        };
        rep.t_open = now_ns();
        if let Some(i) = interrupter {
            rep.intr_sent = i.finish();
        }
        let db = if clone_drop {
            let c = db.clone();
            drop(db);
            c
        } else {
            db
        };
        {
            let tx = db.tx(true).map_err(|e| e.to_string())?;
            {
                let b = tx.get_or_create_bucket("m").map_err(|e| e.to_string())?;
                for kv in b.kv_pairs() {
                    rep.seen.push(String::from_utf8_lossy(kv.key()).to_string());
                }
                b.put(format!("p{}", id), "x").map_err(|e| e.to_string())?;
            }
            tx.commit().map_err(|e| format!("commit: {}", e))?;
        }
        if peek {
            // the holder looks at its own file through a descriptor of its own (a backup copy,
            // a size probe) while the database stays open; the path is spelled differently so
            // that the shim's gates do not count this descriptor
            if let (Some(dir), Some(name)) = (db_path.parent(), db_path.file_name()) {
                let alias = dir.join(".").join(name);
                let _ = std::fs::read(&alias).map_err(|e| format!("peek: {}", e))?;
            }
        }
        // some churn of its own (frees and reuses pages), so that an opener working from a stale
        // view of the file would damage what the others committed
        for round in 0..2u8 {
            let tx = db.tx(true).map_err(|e| e.to_string())?;
            {
                let b = tx.get_or_create_bucket(format!("data{}", id)).map_err(|e| e.to_string())?;
                for i in 0..12u8 {
                    b.put(vec![b'k', i], vec![b'a' + round + id as u8; 150 + 20 * round as usize]).map_err(|e| e.to_string())?;
                }
                if round == 1 {
                    for i in 0..6u8 {
                        let _ = b.delete(vec![b'k', i * 2]);
                    }
                }
            }
            tx.commit().map_err(|e| format!("commit: {}", e))?;
        }
        db.check().map_err(|e| format!("check() inside process {}: {}", id, e))?;
        std::thread::sleep(Duration::from_millis(hold));
        rep.t_close = now_ns();
        drop(db);
        Ok(())
    });
    match r {
        Err(p) => rep.err = Some(format!("panic: {} @ {}", p.msg, p.location)),
        Ok(Err(e)) => rep.err = Some(e),
        Ok(Ok(())) => {}
    }
    let _ = std::fs::write(out, serde_json::to_string(&rep).unwrap_or_default());
    if rep.err.is_some() {
        3
    } else {
        0
    }
}

pub struct Orchestration {
    pub reports: Vec<Option<ProcReport>>,
    pub exit: Vec<Option<i32>>,
    pub contended: bool,
    pub final_err: Option<String>,
}

pub fn run_case(case: &C13Case, dir: &Path) -> Result<Orchestration, Failure> {
    let db = dir.join("p.db");
    let _ = std::fs::remove_file(&db);
    if case.file_exists {
        catch(|| jammdb::OpenOptions::new().pagesize(1024).num_pages(16).open(&db).map(|_| ()))
            .map_err(Failure::from_panic)?
            .map_err(|e| Failure::new("harness_panic", format!("cannot create file: {}", e)))?;
    }
    let shim = super::c02::shim_path();
    if !shim.exists() {
        return Err(Failure::new("harness_panic", format!("{} missing (run setup)", shim.display())));
    }
    // a symbolic link to the database file (dangling until the file is created)
    let link = dir.join("p.link.db");
    let _ = std::fs::remove_file(&link);
    if case.procs.iter().any(|p| p.via_symlink) {
        std::os::unix::fs::symlink(&db, &link).map_err(|e| Failure::new("io", format!("symlink: {}", e)))?;
    }
    let n = case.procs.len();
    let mut children: Vec<Option<Child>> = (0..n).map(|_| None).collect();
    let mut gate_dirs: Vec<Option<PathBuf>> = vec![None; n];
    let mut outs: Vec<PathBuf> = (0..n).map(|i| dir.join(format!("p{}.json", i))).collect();
    let mut contended = false;
    let mut started = 0usize;
    let mut spawn = |i: usize, children: &mut Vec<Option<Child>>, gate_dirs: &mut Vec<Option<PathBuf>>, started: &mut usize, contended: &mut bool| -> Result<(), Failure> {
        let p = &case.procs[i];
        std::thread::sleep(Duration::from_millis(p.start_delay_ms as u64));
        let outp = dir.join(format!("p{}.json", i));
        let _ = std::fs::remove_file(&outp);
        let mut cmd = Command::new(std::env::current_exe().unwrap());
        let used_path = if p.via_symlink { &link } else { &db };
        cmd.arg("worker").arg("proc").arg(used_path).arg(i.to_string()).arg(p.hold_ms.to_string()).arg(&outp);
        if p.peek {
            cmd.arg("peek");
        }
        if p.clone_drop {
            cmd.arg("clone");
        }
        if p.intr > 0 {
            cmd.arg(format!("intr={}", p.intr));
        }
        cmd.env("LD_PRELOAD", &shim).env("JV_SHIM_DB", used_path).env("RUST_BACKTRACE", "0").env_remove("JV_SHIM_LOG");
        cmd.stdout(Stdio::null()).stderr(Stdio::null());
        let gd = if p.gate.is_empty() {
            None
        } else {
            let g = dir.join(format!("gate{}", i));
            let _ = std::fs::remove_dir_all(&g);
            std::fs::create_dir_all(&g).map_err(|e| Failure::new("io", e.to_string()))?;
            cmd.env("JV_SHIM_GATE", format!("{}:{}", p.gate, g.display()));
            Some(g)
        };
        if *started > 0 {
            *contended = true;
        }
        *started += 1;
        let ch = cmd.spawn().map_err(|e| Failure::new("harness_panic", format!("spawn: {}", e)))?;
        children[i] = Some(ch);
        // wait until it reaches its gate, exits, or appears to be waiting (timeout)
        let t0 = Instant::now();
        loop {
            if let Some(g) = &gd {
                if g.join("reached").exists() {
                    break;
                }
            }
            if let Some(c) = children[i].as_mut() {
                if let Ok(Some(_)) = c.try_wait() {
                    break;
                }
            }
            if t0.elapsed() > Duration::from_millis(if gd.is_some() { 150 } else { 30 }) {
                break;
            }
            std::thread::sleep(Duration::from_micros(300));
        }
        gate_dirs[i] = gd;
        Ok(())
    };
    for i in 0..n {
        if case.procs[i].start_after_release_of.is_none() {
            spawn(i, &mut children, &mut gate_dirs, &mut started, &mut contended)?;
        }
    }
    // release the gates in the generated order, letting things settle in between; late openers
    // are started once the process they wait for has been released (and had time to close)
    let mut released = vec![false; n];
    let mut order: Vec<usize> = case.release.clone();
    for i in 0..n {
        if !order.contains(&i) {
            order.push(i);
        }
    }
    for &i in &order {
        if i >= n {
            continue;
        }
        if let Some(g) = &gate_dirs[i] {
            let _ = std::fs::write(g.join("go"), b"");
        }
        released[i] = true;
        std::thread::sleep(Duration::from_millis(3));
        for j in 0..n {
            if children[j].is_none() && case.procs[j].start_after_release_of == Some(i) {
                // give the released process time to finish and close
                std::thread::sleep(Duration::from_millis(40));
                spawn(j, &mut children, &mut gate_dirs, &mut started, &mut contended)?;
            }
        }
    }
    for j in 0..n {
        if children[j].is_none() {
            spawn(j, &mut children, &mut gate_dirs, &mut started, &mut contended)?;
        }
    }
    for g in gate_dirs.iter().flatten() {
        let _ = std::fs::write(g.join("go"), b"");
    }
    let _ = &mut outs;
    // wait for everybody
    let t0 = Instant::now();
    let mut exit: Vec<Option<i32>> = vec![None; n];
    loop {
        let mut all = true;
        for (i, c) in children.iter_mut().enumerate() {
            if exit[i].is_some() {
                continue;
            }
            if let Some(ch) = c {
                match ch.try_wait() {
                    Ok(Some(st)) => exit[i] = Some(st.code().unwrap_or(-1)),
                    _ => all = false,
                }
            }
        }
        if all {
            break;
        }
        if t0.elapsed() > Duration::from_secs(20) {
            for c in children.iter_mut().flatten() {
                let _ = c.kill();
                let _ = c.wait();
            }
            break;
        }
        std::thread::sleep(Duration::from_micros(500));
    }
    let reports: Vec<Option<ProcReport>> = outs.iter().map(|o| std::fs::read_to_string(o).ok().and_then(|s| serde_json::from_str(&s).ok())).collect();
    // after everybody has closed: the file must hold every marker and be sound
    let mut final_err: Option<String> = None;
    if exit.iter().all(|e| *e == Some(0)) {
        let r = catch(|| -> Result<(), String> {
            let dbh = jammdb::OpenOptions::new().pagesize(1024).num_pages(16).open(&db).map_err(|e| format!("final open: {}", e))?;
            dbh.check().map_err(|e| format!("final check(): {}", e))?;
            let tx = dbh.tx(false).map_err(|e| e.to_string())?;
            let b = tx.get_bucket("m").map_err(|e| format!("marker bucket: {}", e))?;
            for i in 0..n {
                if b.get_kv(format!("p{}", i)).is_none() {
                    return Err(format!("marker of process {} is missing after all processes finished", i));
                }
                let d = tx.get_bucket(format!("data{}", i)).map_err(|e| format!("data bucket of process {}: {}", i, e))?;
                if d.kv_pairs().count() != 6 {
                    return Err(format!("data of process {} is damaged ({} entries instead of 6)", i, d.kv_pairs().count()));
                }
            }
            Ok(())
        });
        final_err = match r {
            Err(p) => Some(format!("final verification panicked: {} @ {}", p.msg, p.location)),
            Ok(Err(e)) => Some(e),
            Ok(Ok(())) => None,
        };
        let bytes = std::fs::read(&db).unwrap_or_default();
        let rep = crate::fsck::fsck(&bytes, 1024);
        if final_err.is_none() && !rep.ok() {
            final_err = Some(format!("file not well-formed after all processes finished: {}", rep.errors.join("; ")));
        }
    }
    for g in gate_dirs.iter().flatten() {
        let _ = std::fs::remove_dir_all(g);
    }
    let _ = std::fs::remove_file(&db);
    Ok(Orchestration { reports, exit, contended, final_err })
}

pub fn judge(case: &C13Case, o: &Orchestration) -> Option<Failure> {
    for (i, e) in o.exit.iter().enumerate() {
        match e {
            None => return Some(Failure::new("hang", format!("process {} did not finish within 20 s", i))),
            Some(0) => {}
            Some(c) => {
                let err = o.reports[i].as_ref().and_then(|r| r.err.clone()).unwrap_or_else(|| format!("exit status {}", c));
                return Some(Failure::new("open_failed", format!("process {} (gate '{}') failed instead of waiting: {}", i, case.procs[i].gate, err)));
            }
        }
    }
    if let Some(e) = &o.final_err {
        return Some(Failure::new("lost_commit", e.clone()));
    }
    let reps: Vec<&ProcReport> = o.reports.iter().flatten().collect();
    if reps.len() != case.procs.len() {
        return Some(Failure::new("harness_panic", "missing worker report".into()));
    }
    for a in &reps {
        for b in &reps {
            if a.id >= b.id {
                continue;
            }
            let overlap = a.t_open < b.t_close && b.t_open < a.t_close;
            if overlap {
                return Some(Failure::new(
                    "overlap",
                    format!("processes {} and {} were inside the database at the same time: [{}, {}] and [{}, {}] (ns)", a.id, b.id, a.t_open, a.t_close, b.t_open, b.t_close),
                ));
            }
        }
    }
    for a in &reps {
        for b in &reps {
            if a.id != b.id && b.t_close <= a.t_open && !a.seen.contains(&format!("p{}", b.id)) {
                return Some(Failure::new(
                    "lost_commit",
                    format!("process {} opened the database after process {} had closed it but does not see its marker (sees {:?})", a.id, b.id, a.seen),
                ));
            }
        }
    }
    None
}

pub fn gates(creator: bool) -> Vec<String> {
    let mut g: Vec<String> = vec!["".into(), "open:1".into(), "openret:1".into(), "stat:1".into(), "statret:1".into(), "mmap:1".into(), "fsync:1".into(), "close:1".into(), "write:1".into()];
    if creator {
        g.push("write:2".into());
        g.push("fsync:2".into());
    }
    g
}

fn shard(ctx: &ShardCtx, known: &Known) -> ShardOut {
    let mut out = ShardOut::default();
    let mut rng = Rng(ctx.shard_seed("c13"));
    let mut cases: Vec<C13Case> = Vec::new();
    // two processes: every gate pair x both release orders x file exists or not
    let mut k = 0usize;
    for exists in [false, true] {
        for g0 in gates(!exists) {
            for g1 in gates(false) {
                for order in 0..2 {
                    k += 1;
                    if k % ctx.nshards != ctx.shard {
                        continue;
                    }
                    if order == 1 && (g0.is_empty() || g1.is_empty()) {
                        continue;
                    }
                    cases.push(C13Case {
                        file_exists: exists,
                        procs: vec![
                            ProcSpec { gate: g0.clone(), hold_ms: rng.below(20) as u32, start_delay_ms: 0, start_after_release_of: None, peek: k % 3 == 0, clone_drop: k % 4 == 1, via_symlink: k % 6 == 5, intr: 0 },
                            ProcSpec { gate: g1.clone(), hold_ms: rng.below(20) as u32, start_delay_ms: rng.below(5) as u32, start_after_release_of: None, peek: k % 5 == 0, clone_drop: k % 7 == 2, via_symlink: k % 4 == 3, intr: 0 },
                        ],
                        release: if order == 0 { vec![0, 1] } else { vec![1, 0] },
                    });
                }
            }
        }
    }
    // chains of three: A holds (parked at a gate while holding the database), B queues behind it,
    // C arrives only after A (or B) has been released and closed, while the other still holds
    for exists in [false, true] {
        for ga in ["close:1", "mmap:1", "fsync:1"] {
            for gb in ["", "close:1", "mmap:1"] {
                for (after, peek) in [(0usize, false), (1, false), (0, true), (1, true)] {
                    k += 1;
                    if k % ctx.nshards != ctx.shard {
                        continue;
                    }
                    cases.push(C13Case {
                        file_exists: exists,
                        procs: vec![
                            ProcSpec { gate: ga.to_string(), hold_ms: 5, start_delay_ms: 0, start_after_release_of: None, peek, clone_drop: !peek && after == 1, via_symlink: false, intr: 0 },
                            ProcSpec { gate: gb.to_string(), hold_ms: 60, start_delay_ms: 0, start_after_release_of: None, peek, clone_drop: !peek && after == 1, via_symlink: k % 3 == 0, intr: if k % 4 == 2 { 5 } else { 0 } },
                            ProcSpec { gate: String::new(), hold_ms: 5, start_delay_ms: 0, start_after_release_of: Some(after), peek: false, clone_drop: false, via_symlink: k % 6 == 0, intr: if k % 5 == 1 { 7 } else { 0 } },
                        ],
                        release: vec![0, 1, 2],
                    });
                }
            }
        }
    }
    // a waiter that is signalled while it is blocked in flock(2): the holder is parked at a gate (or
    // holds for 60 ms), the waiter's handler has no SA_RESTART, 1..12 signals arrive during the wait
    for exists in [false, true] {
        for ga in ["close:1", "mmap:1", "fsync:1", ""] {
            for intr in [1u32, 2, 3, 4, 5, 6, 8, 12] {
                k += 1;
                if k % ctx.nshards != ctx.shard {
                    continue;
                }
                cases.push(C13Case {
                    file_exists: exists,
                    procs: vec![
                        ProcSpec { gate: ga.to_string(), hold_ms: if ga.is_empty() { 60 } else { 10 }, start_delay_ms: 0, start_after_release_of: None, peek: k % 3 == 0, clone_drop: false, via_symlink: false, intr: 0 },
                        ProcSpec { gate: String::new(), hold_ms: 5, start_delay_ms: if ga.is_empty() { 15 } else { 0 }, start_after_release_of: None, peek: false, clone_drop: k % 4 == 0, via_symlink: k % 5 == 0, intr },
                    ],
                    release: vec![0, 1],
                });
            }
        }
    }
    // three processes and timing-only variations: sampled
    let extra = ctx.tier.pick(40, 800);
    for _ in 0..extra {
        let exists = rng.chance(1, 2);
        let n = 2 + rng.below(2) as usize;
        let gs = gates(!exists);
        let procs: Vec<ProcSpec> = (0..n)
            .map(|i| ProcSpec {
                gate: if rng.chance(1, 2) { String::new() } else { gs[rng.below(if i == 0 { gs.len() } else { 9 } as u64) as usize].clone() },
                hold_ms: rng.below(25) as u32,
                start_delay_ms: rng.below(40) as u32 * (i > 0) as u32,
                start_after_release_of: if i == 2 && rng.chance(1, 2) { Some(rng.below(2) as usize) } else { None },
                peek: rng.chance(1, 3),
                clone_drop: rng.chance(1, 4),
                via_symlink: rng.chance(1, 4),
                intr: if i > 0 && rng.chance(1, 4) { 1 + rng.below(10) as u32 } else { 0 },
            })
            .collect();
        let mut release: Vec<usize> = (0..n).collect();
        for i in (1..n).rev() {
            release.swap(i, rng.below(i as u64 + 1) as usize);
        }
        cases.push(C13Case { file_exists: exists, procs, release });
    }
    for case in cases {
        note_current(ctx, "c13", &case);
        match run_case(&case, &ctx.scratch) {
            Err(f) => {
                record_case(ctx, &mut out, known, "c13", &case, CaseVerdict { failure: Some(f), nontrivial: false, classes: vec![] });
            }
            Ok(o) => {
                let f = judge(&case, &o);
                let mut classes = vec![if case.file_exists { "file exists".to_string() } else { "file not yet created".to_string() }, format!("{} processes", case.procs.len())];
                if case.procs.iter().any(|p| !p.gate.is_empty()) {
                    classes.push("forced ordering (gate)".into());
                }
                if o.reports.iter().flatten().any(|r| r.intr_sent > 0) {
                    classes.push("opener signalled while blocked in flock".into());
                }
                if o.reports.iter().flatten().any(|r| r.intr_retries > 0) {
                    classes.push("open returned Interrupted and was retried".into());
                }
                record_case(ctx, &mut out, known, "c13", &case, CaseVerdict { failure: f, nontrivial: o.contended, classes });
            }
        }
        if out.failures.len() >= 4 {
            break;
        }
    }
    clear_current(ctx);
    out
}

pub fn replay(fr: &FailRec, dir: &std::path::Path) -> Option<Failure> {
    let case: C13Case = match serde_json::from_value(fr.case.clone()) {
        Ok(c) => c,
        Err(e) => return Some(Failure::new("harness_panic", format!("bad C13 case: {}", e))),
    };
    match run_case(&case, dir) {
        Err(f) => Some(f),
        Ok(o) => judge(&case, &o),
    }
}
