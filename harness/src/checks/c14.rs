//! C14 — borrowed data cannot outlive its transaction; handles stay on their thread.

use super::CheckDef;
use crate::interp::Failure;
use crate::runner::*;
use serde::{Deserialize, Serialize};
use serde_json::Value;
use std::path::Path;

pub fn def() -> CheckDef {
    CheckDef {
        meta: CheckMeta {
            id: "C14",
            level: "exploration",
            rule: "client programs compiled with rustc against the libjammdb rlib just built from /repo: (1) a hand-written corpus, one program per (type, escape route): types Bucket, Cursor, Range, bucket / pair iterators, Data, KVPair, BucketName, the bytes from BucketName::to_bytes, byte slices from key/value/kv/name; routes: use after the transaction's scope, use after commit, return from fn(&DB), store in a longer-lived container, thread::spawn, scoped thread (thread routes for handles, not for plain byte slices); plus special programs (Tx past its DB, Tx moved to a thread, too-short key / value / bucket-name buffers, handle used after commit / drop); (2) programs generated from the public API surface: nightly rustdoc JSON of the current tree is walked for every public inherent method and trait implementation on every type reachable from a transaction, arguments are synthesised from the signatures, and every result that can carry a borrow is pushed through every route, plain and wrapped in Option / tuple / Box / Vec / closure; (2b) for every ToBytes argument of every method: a key / value / name buffer that dies before commit, in every container kind (&str, &bytes::Bytes, a bytes::Bytes clone, &Vec<u8>, &String, &[u8], &[u8; N]): must be rejected, or, if accepted, must have been copied (the freed memory is overwritten before commit and must not show up in the committed data); (3) positive controls that must compile and run. Oracle: an escape program must be rejected with a borrow / lifetime error (thread routes: or a Send / Sync error); any other rejection is inconclusive for that program; if it compiles: a bucket / cursor / iterator handle that outlives its transaction is a violation outright; anything else is linked and run in a probe that copies the bytes the escaped value exposes (as AsRef<[u8]> or through the key / value / name accessors), ends the transaction, churns the database (commits that grow and remap the file and reuse every freed page) and re-reads the bytes: no fault, bytes unchanged; a thread route that compiles is a violation. Non-trivial = program that reached the type checker with the escape present (rejected for the expected reason, or compiled and probed). Distinct = program id.",
            assumptions: &[
                "unsafe client code is out of scope",
                "thread routes are applied to handles (types of the crate, opaque iterators), not to plain &[u8] (a byte slice is Send + Sync by language rules and stays valid while its transaction is alive on the other thread)",
                "methods whose arguments cannot be synthesised from their signatures are listed as uncovered, not failed",
            ],
        },
        shard,
        nshards: 1,
    }
}

#[derive(Serialize, Deserialize, Clone, Debug)]
pub struct C14Case {
    pub program: String,
    pub verdict: String,
    pub detail: String,
    pub source: String,
}

fn run_generator(ctx: &ShardCtx, only: &str, wrap: bool) -> Result<Value, String> {
    let root = verif_root();
    let deps = root.join("harness/target/verif/deps");
    let tdir = root.join("harness/target/rustdoc");
    // API surface of the current tree
    let doc = std::process::Command::new("cargo")
        .args(["+nightly", "rustdoc", "--lib", "--offline", "--target-dir"])
        .arg(&tdir)
        .args(["--", "-Z", "unstable-options", "--output-format", "json"])
        .current_dir(std::env::var("JV_REPO").unwrap_or_else(|_| "/repo".to_string()))
        .env("CARGO_NET_OFFLINE", "true")
        .output();
    let json = tdir.join("doc/jammdb.json");
    let json_ok = matches!(&doc, Ok(o) if o.status.success()) && json.exists();
    let work = ctx.scratch.join("progs");
    let outp = ctx.scratch.join("c14.out.json");
    let mut cmd = std::process::Command::new("python3");
    cmd.arg(root.join("progs/gen_programs.py")).arg("--deps").arg(&deps).arg("--out").arg(&outp).arg("--work").arg(&work);
    if json_ok {
        cmd.arg("--json").arg(&json);
    }
    if !only.is_empty() {
        cmd.arg("--only").arg(only);
    }
    if wrap {
        cmd.arg("--wrap");
    }
    let o = cmd.output().map_err(|e| format!("cannot run generator: {}", e))?;
    if !o.status.success() {
        return Err(format!("generator failed: {}", String::from_utf8_lossy(&o.stderr)));
    }
    let s = std::fs::read_to_string(&outp).map_err(|e| e.to_string())?;
    serde_json::from_str(&s).map_err(|e| e.to_string())
}

fn judge(ctx: &ShardCtx, known: &Known, out: &mut ShardOut, v: &Value) {
    if let Some(e) = v.get("error") {
        out.inconclusive.push(format!("generator: {}", e));
        return;
    }
    let empty = vec![];
    for r in v.get("results").and_then(|r| r.as_array()).unwrap_or(&empty) {
        let id = r["id"].as_str().unwrap_or("").to_string();
        let verdict = r["verdict"].as_str().unwrap_or("").to_string();
        let detail = r.get("detail").and_then(|d| d.as_str()).unwrap_or("").to_string();
        let src = r.get("src").and_then(|d| d.as_str()).unwrap_or("").to_string();
        let origin = r["origin"].as_str().unwrap_or("");
        let case = C14Case { program: id.clone(), verdict: verdict.clone(), detail: detail.clone(), source: src };
        let mut classes = vec![format!("{}: {}", origin, verdict)];
        if let Some(route) = r.get("route").and_then(|x| x.as_str()) {
            if origin != "control" && origin != "special" {
                classes.push(format!("route {}", route));
            }
        }
        if verdict == "not_applicable" {
            // a short-lived-buffer variant whose container type the argument does not accept
            out.excluded += 1;
            continue;
        }
        let (failure, nt) = match verdict.as_str() {
            "rejected_expected" | "compiled_ran_unharmed" | "control_ok" => (None, true),
            "compiled_faulted" => (Some(Failure::new("escape", format!("{} compiles, and after the transaction ended and the file was churned the escaped data faulted or changed: {}", id, detail))), false),
            "compiled_hung" => (Some(Failure::new("escape", format!("{}: {}", id, detail))), false),
            "compiled_handle_escape" => (Some(Failure::new("escape", format!("{} compiles: a bucket / cursor / iterator handle can be kept past the end of its transaction", id))), false),
            "compiled_thread_escape" => (Some(Failure::new("escape", format!("{} compiles: a handle borrowed from a transaction can be moved to / shared with another thread", id))), false),
            "compiled_special" => (Some(Failure::new("escape", format!("{} compiles although it keeps borrowed data past its owner", id))), false),
            "control_rejected" | "control_failed" => (Some(Failure::new("control", format!("ordinary correct usage {} no longer compiles / runs: {}", id, detail))), false),
            _ => {
                // rejected for another reason (renamed item, broken template), link problems, timeouts
                out.class("inconclusive program");
                if let Some(Value::Array(a)) = out.extra.get_mut("inconclusive_programs") {
                    if a.len() < 30 {
                        a.push(serde_json::json!({"program": id, "verdict": verdict, "detail": detail}));
                    }
                } else {
                    out.extra.insert("inconclusive_programs".into(), serde_json::json!([{"program": id, "verdict": verdict, "detail": detail}]));
                }
                (None, false)
            }
        };
        record_case(ctx, out, known, "c14", &case, CaseVerdict { failure, nontrivial: nt, classes });
    }
    out.extra.insert("uncovered".into(), v.get("uncovered").cloned().unwrap_or(Value::Null));
    out.extra.insert("methods_without_borrowed_result_skipped".into(), v.get("methods_without_borrowed_result").cloned().unwrap_or(Value::Null));
}

fn shard(ctx: &ShardCtx, known: &Known) -> ShardOut {
    let mut out = ShardOut::default();
    match run_generator(ctx, "", true) {
        Err(e) => out.inconclusive.push(e),
        Ok(v) => judge(ctx, known, &mut out, &v),
    }
    // keep the samples small: program ids + verdicts only
    for s in out.samples.iter_mut() {
        if let Some(o) = s.as_object_mut() {
            o.remove("source");
        }
    }
    out
}

pub fn replay(fr: &FailRec, dir: &Path) -> Option<Failure> {
    let case: C14Case = match serde_json::from_value(fr.case.clone()) {
        Ok(c) => c,
        Err(e) => return Some(Failure::new("harness_panic", format!("bad C14 case: {}", e))),
    };
    let ctx = ShardCtx { id: "C14".into(), tier: Tier::Quick, seed: 1, shard: 0, nshards: 1, scratch: dir.to_path_buf(), strict_known: false, out_path: None };
    let base = case.program.split('+').next().unwrap_or("").to_string();
    let wrap = case.program.contains('+');
    let v = match run_generator(&ctx, if wrap { &case.program } else { &base }, wrap) {
        Ok(v) => v,
        Err(e) => return Some(Failure::new("harness_panic", e)),
    };
    let mut out = ShardOut::default();
    judge(&ctx, &Known::default(), &mut out, &v);
    out.failures.first().map(|f| f.failure.clone())
}
