//! C16 — open options change performance, not behaviour.

use super::CheckDef;
use crate::interp::*;
use crate::ops::*;
use crate::panics::catch;
use crate::runner::*;
use serde::{Deserialize, Serialize};

pub fn def() -> CheckDef {
    CheckDef {
        meta: CheckMeta {
            id: "C16",
            level: "exploration",
            rule: "generated histories (C01 grammar) each replayed under several configurations drawn from page size {1024, 1032, 2048, 3000, 4096, 5000, 16384, 65536, 1 MiB} x initial pages {4, 32, 1000} x strict {off,on} x map-populate {off,on} (rotating through the whole product; the 1 MiB x 1000-page files run only in the thorough tier, on disk, one at a time); for every configuration every return value and the dump after every commit / reopen equal the reference model (hence each other), strict mode must never turn a commit into an error, and the independent parser must accept the file at the configured page size. Plus growth runs from a 4-page file writing 20-30 MiB (>= 3 extension steps), and builder page sizes that are not a multiple of 8, which must work like any other size or be refused by Err / unwinding panic (a process abort or fault kills the shard and is reported with the case). Non-trivial = (history, configuration) with a page size other than the OS default and a tree of height >= 2 or a file extension; growth runs; refused odd sizes. Distinct = hash of (history, configuration).",
            assumptions: &["scratch on tmpfs except for files >= 256 MiB", "OS page size 4096"],
        },
        shard,
        nshards: NSHARDS,
    }
}

pub const PAGE_SIZES: [u64; 9] = [1024, 1032, 2048, 3000, 4096, 5000, 16384, 65536, 1 << 20];
pub const INIT_PAGES: [usize; 3] = [4, 32, 1000];

pub fn config(i: usize) -> Cfg {
    let ps = PAGE_SIZES[i % 9];
    let np = INIT_PAGES[(i / 9) % 3];
    let strict = (i / 27) % 2 == 1;
    let populate = (i / 54) % 2 == 1;
    Cfg { pagesize: ps, num_pages: np, strict, populate }
}

#[derive(Serialize, Deserialize, Clone, Debug)]
pub enum C16Case {
    Replay { history: HistoryCase },
    Growth { pagesize: u64, strict: bool, #[serde(default)] populate: bool, value_kib: u32, values_per_tx: u32, txs: u32 },
    OddSize { pagesize: u64 },
}

fn growth_history(pagesize: u64, strict: bool, populate: bool, value_kib: u32, values_per_tx: u32, txs: u32) -> HistoryCase {
    let mut t = vec![TxSpec { kind: TxKind::Commit, ops: vec![Op::GetOrCreate { b: 0, k: KeySel::Lit(b"g".to_vec()), kk: 2 }] }];
    let mut c = 0u32;
    for i in 0..txs {
        let mut ops = Vec::new();
        for _ in 0..values_per_tx {
            ops.push(Op::Put { b: 0, k: KeySel::Lit(format!("v{:05}", c).into_bytes()), v: ValSel::Fill { len: value_kib * 1024 + c, seed: c as u8 }, kk: 2, vk: 2 });
            c += 1;
        }
        if i % 3 == 2 {
            ops.push(Op::DeleteRun { b: 0, start: 0, n: 3 });
        }
        t.push(TxSpec { kind: TxKind::Commit, ops });
        if i == txs / 2 {
            t.push(TxSpec { kind: TxKind::Reopen, ops: vec![] });
        }
    }
    HistoryCase { cfg: Cfg { pagesize, num_pages: 4, strict, populate }, fresh_handles: false, txs: t, dance: 0 }
}

pub fn run_case(case: &C16Case, path: &std::path::Path) -> (Result<(), Failure>, CaseStats, u64) {
    match case {
        C16Case::Replay { history } => {
            let opts = RunOpts::standard(path.to_path_buf());
            let o = run_history(history, &opts);
            (o.result, o.stats, 0)
        }
        C16Case::Growth { pagesize, strict, populate, value_kib, values_per_tx, txs } => {
            let h = growth_history(*pagesize, *strict, *populate, *value_kib, *values_per_tx, *txs);
            let mut opts = RunOpts::standard(path.to_path_buf());
            opts.keep_file = true;
            let o = run_history(&h, &opts);
            let len = std::fs::metadata(path).map(|m| m.len()).unwrap_or(0);
            let _ = std::fs::remove_file(path);
            let steps = len / (8 << 20);
            let mut r = o.result;
            if r.is_ok() && steps < 3 {
                r = Err(Failure::new("harness_panic", format!("growth run crossed only {} extension steps", steps)));
            }
            (r, o.stats, steps)
        }
        C16Case::OddSize { pagesize } => {
            let _ = std::fs::remove_file(path);
            let ps = *pagesize;
            // refusal (Err / unwinding panic) at any point is fine; if the size is accepted it must behave
            let r = catch(|| jammdb::OpenOptions::new().pagesize(ps).num_pages(8).open(path).map(|_| ()));
            let _ = std::fs::remove_file(path);
            match r {
                Err(_) | Ok(Err(_)) => (Ok(()), CaseStats::default(), 1),
                Ok(Ok(())) => {
                    let mut h = growth_history(ps, false, false, 1, 3, 4);
                    h.cfg.num_pages = 8;
                    let opts = RunOpts::standard(path.to_path_buf());
                    let o = run_history(&h, &opts);
                    (o.result, o.stats, 0)
                }
            }
        }
    }
}

fn shard(ctx: &ShardCtx, known: &Known) -> ShardOut {
    let mut out = ShardOut::default();
    let path = ctx.db_path("c16.db");
    let nh = ctx.tier.pick(250, 3000);
    let per_hist = ctx.tier.pick(5, 9);
    for hi in 0..nh {
        let strat = history(7, 25, OpWeights::default(), (10, 2, 1, 2));
        let base = gen_one(&strat, mix(ctx.shard_seed("c16"), hi as u64));
        for j in 0..per_hist {
            let ci = (ctx.shard * 31 + hi * 7 + j * 13) % 108;
            let cfg = config(ci);
            let big = cfg.pagesize * cfg.num_pages as u64;
            let mut history = base.clone();
            history.cfg = cfg.clone();
            let mut p = path.clone();
            if big >= (256 << 20) {
                // 1 MiB pages x 1000: thorough tier only, on disk, one shard
                if ctx.tier == Tier::Quick || ctx.shard != 0 {
                    out.excluded += 1;
                    continue;
                }
                let d = std::env::temp_dir().join(format!("jv-c16-big-{}", std::process::id()));
                let _ = std::fs::create_dir_all(&d);
                p = d.join("big.db");
                history.txs.truncate(4);
            } else if cfg.pagesize >= 65536 {
                history.txs.truncate(5);
            }
            let case = C16Case::Replay { history };
            note_current(ctx, "c16", &case);
            let (r, st, _) = run_case(&case, &p);
            if p != path {
                let _ = std::fs::remove_dir_all(p.parent().unwrap());
            }
            let nt = cfg.pagesize != 4096 && (st.max_height >= 2 || st.growth) && st.mut_commits >= 1;
            let classes = vec![
                format!("page size {}", cfg.pagesize),
                format!("initial pages {}", cfg.num_pages),
                format!("strict {}", cfg.strict),
                format!("populate {}", cfg.populate),
            ];
            record_case(ctx, &mut out, known, "c16", &case, CaseVerdict { nontrivial: nt, classes, failure: r.err() });
        }
    }
    // growth runs: spread over shards
    let growth: Vec<C16Case> = vec![
        C16Case::Growth { pagesize: 1024, strict: false, populate: false, value_kib: 100, values_per_tx: 12, txs: 22 },
        C16Case::Growth { pagesize: 4096, strict: true, populate: true, value_kib: 300, values_per_tx: 5, txs: 18 },
        C16Case::Growth { pagesize: 5000, strict: false, populate: false, value_kib: 64, values_per_tx: 30, txs: 14 },
        C16Case::Growth { pagesize: 16384, strict: false, populate: true, value_kib: 1000, values_per_tx: 2, txs: 14 },
        C16Case::Growth { pagesize: 1032, strict: true, populate: false, value_kib: 200, values_per_tx: 8, txs: 16 },
        C16Case::Growth { pagesize: 65536, strict: false, populate: true, value_kib: 500, values_per_tx: 4, txs: 13 },
        C16Case::Growth { pagesize: 3000, strict: false, populate: false, value_kib: 150, values_per_tx: 10, txs: 18 },
        C16Case::Growth { pagesize: 2048, strict: false, populate: true, value_kib: 9000, values_per_tx: 1, txs: 4 },
    ];
    for (i, g) in growth.iter().enumerate() {
        if i % ctx.nshards != ctx.shard && !(ctx.tier == Tier::Thorough && (i + 8) % ctx.nshards == ctx.shard) {
            continue;
        }
        note_current(ctx, "c16", g);
        let (r, _st, steps) = run_case(g, &path);
        record_case(ctx, &mut out, known, "c16", g, CaseVerdict { nontrivial: true, classes: vec![format!("growth run ({} extension steps)", steps.min(9))], failure: r.err() });
    }
    // builder values that are not a multiple of the word size
    let odd: Vec<u64> = vec![1025, 1026, 1027, 1028, 1030, 1031, 2047, 2049, 3001, 4095, 4097, 4100, 5001, 5004, 8190, 16385, 65537];
    for (i, ps) in odd.iter().enumerate() {
        if i % ctx.nshards != ctx.shard {
            continue;
        }
        ctx.checkpoint(&out);
        let case = C16Case::OddSize { pagesize: *ps };
        note_current(ctx, "c16", &case);
        let (r, _st, refused) = run_case(&case, &path);
        record_case(ctx, &mut out, known, "c16", &case, CaseVerdict { nontrivial: true, classes: vec![if refused == 1 { "odd page size refused".to_string() } else { "odd page size accepted and behaves".to_string() }], failure: r.err() });
    }
    clear_current(ctx);
    out
}

pub fn replay(fr: &FailRec, dir: &std::path::Path) -> Option<Failure> {
    let case: C16Case = match serde_json::from_value(fr.case.clone()) {
        Ok(c) => c,
        Err(e) => return Some(Failure::new("harness_panic", format!("bad C16 case: {}", e))),
    };
    run_case(&case, &dir.join("c16.db")).0.err()
}
