pub mod c01;

use crate::runner::{CheckMeta, ShardFn};

pub struct CheckDef {
    pub meta: CheckMeta,
    pub shard: ShardFn,
    pub nshards: usize,
}

pub fn all() -> Vec<CheckDef> {
    vec![c01::def()]
}

pub fn find(id: &str) -> Option<CheckDef> {
    all().into_iter().find(|c| c.meta.id == id)
}

/// Replay routines for case kinds that are not plain histories.
pub fn replay_other(kind: &str, _fr: &crate::runner::FailRec, _dir: &std::path::Path) -> Option<crate::interp::Failure> {
    Some(crate::interp::Failure::new("replay", format!("unknown case kind {}", kind)))
}
