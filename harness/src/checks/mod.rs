pub mod c01;
pub mod c02;
pub mod c03;
pub mod c04;
pub mod c05;
pub mod c06;
pub mod c07;
pub mod c08;
pub mod c09;
pub mod c10;
pub mod c11;
pub mod c12;
pub mod c13;
pub mod c14;
pub mod c15;
pub mod c16;

use crate::runner::{CheckMeta, ShardFn};

pub struct CheckDef {
    pub meta: CheckMeta,
    pub shard: ShardFn,
    pub nshards: usize,
}

impl CheckDef {
    /// an additional shard (index == nshards) that the thorough tier runs next to the others
    pub fn extra_thorough(&self) -> Option<ShardFn> {
        match self.meta.id {
            "C01" | "C05" | "C07" | "C08" => Some(crate::fuzzshard::fuzz_shard),
            _ => None,
        }
    }
}

pub fn all() -> Vec<CheckDef> {
    vec![c01::def(), c02::def(), c03::def(), c04::def(), c05::def(), c06::def(), c07::def(), c08::def(), c09::def(), c10::def(), c11::def(), c12::def(), c13::def(), c14::def(), c15::def(), c16::def()]
}

pub fn find(id: &str) -> Option<CheckDef> {
    all().into_iter().find(|c| c.meta.id == id)
}

/// Replay routines for case kinds that are not plain histories.
pub fn replay_other(kind: &str, fr: &crate::runner::FailRec, dir: &std::path::Path) -> Option<crate::interp::Failure> {
    match kind {
        "c08" => c08::replay(fr, dir),
        "c02" => c02::replay(fr, dir),
        "c03" => c03::replay(fr, dir),
        "c04" => c04::replay(fr, dir),
        "c09" => c09::replay(fr, dir),
        "c10" => c10::replay(fr, dir),
        "c11" => c11::replay(fr, dir),
        "c12" => c12::replay(fr, dir),
        "c13" => c13::replay(fr, dir),
        "c14" => c14::replay(fr, dir),
        "c15" => c15::replay(fr, dir),
        "c16" => c16::replay(fr, dir),
        "c06-errdiff" => match serde_json::from_value::<c06::ErrDiffCase>(fr.case.clone()) {
            Ok(c) => c06::run_err_diff(&c, dir).0.err(),
            Err(e) => Some(crate::interp::Failure::new("harness_panic", format!("bad case: {}", e))),
        },
        _ => Some(crate::interp::Failure::new("harness_panic", format!("unknown case kind {}", kind))),
    }
}
