//! E3: shim-log reader and crash-image enumeration.

use crate::fsck;
use crate::interp::{compare_dump, dump_db, open_db, Failure};
use crate::model::MBucket;
use crate::ops::Cfg;
use crate::panics::catch;
use crate::runner::Rng;
use std::collections::HashSet;
use std::path::{Path, PathBuf};

#[derive(Clone, Debug)]
pub enum Ev {
    Open { flags: i64, size: u64 },
    Write { off: u64, data: Vec<u8>, size: u64, result: i64 },
    Sync { size: u64, result: i64 },
    Trunc { len: u64, size: u64 },
    Falloc { off: u64, len: u64, size: u64 },
    Marker(String),
    Mmap { prot: u64, size: u64 },
    Close { size: u64 },
    Fail { off: i64, errno: i64 },
    Other(u32),
}

pub fn parse_log(path: &Path) -> Result<Vec<Ev>, String> {
    let b = std::fs::read(path).map_err(|e| format!("cannot read shim log: {}", e))?;
    let mut evs = Vec::new();
    let mut p = 0usize;
    while p + 48 <= b.len() {
        let ty = u32::from_le_bytes(b[p..p + 4].try_into().unwrap());
        let off = i64::from_le_bytes(b[p + 16..p + 24].try_into().unwrap());
        let len = u64::from_le_bytes(b[p + 24..p + 32].try_into().unwrap());
        let size = u64::from_le_bytes(b[p + 32..p + 40].try_into().unwrap());
        let result = i64::from_le_bytes(b[p + 40..p + 48].try_into().unwrap());
        p += 48;
        let payload_len = match ty {
            1 | 5 => len as usize,
            _ => 0,
        };
        if p + payload_len > b.len() {
            return Err("truncated shim log".into());
        }
        let payload = &b[p..p + payload_len];
        p += payload_len;
        evs.push(match ty {
            1 => Ev::Write { off: off as u64, data: payload.to_vec(), size, result },
            2 => Ev::Sync { size, result },
            3 => Ev::Trunc { len: off as u64, size },
            4 => Ev::Falloc { off: off as u64, len, size },
            5 => Ev::Marker(String::from_utf8_lossy(payload).to_string()),
            6 => Ev::Open { flags: off, size },
            7 => Ev::Mmap { prot: len, size },
            8 => Ev::Close { size },
            9 => Ev::Fail { off, errno: -result },
            t => Ev::Other(t),
        });
    }
    Ok(evs)
}

#[derive(Clone, Debug)]
pub struct W {
    pub off: u64,
    pub data: Vec<u8>,
}

/// One crash image: which unsynced writes (index, persisted byte ranges) reached the medium, and
/// whether a file-size change since the last sync is durable.
#[derive(Clone, Debug)]
pub struct ImageSpec {
    /// (write index in `unsynced`, list of (start, end) byte ranges of that write that persisted)
    pub parts: Vec<(usize, Vec<(usize, usize)>)>,
    pub size_applied: bool,
    pub desc: String,
}

impl ImageSpec {
    /// at least one but not all of the k unsynced writes applied, or a torn write
    pub fn nontrivial(&self, unsynced: &[W]) -> bool {
        let torn = self.parts.iter().any(|(i, r)| r.len() != 1 || r[0] != (0, unsynced[*i].data.len()));
        torn || (!self.parts.is_empty() && self.parts.len() < unsynced.len())
    }
}

pub struct ImageChecker {
    pub cfg: Cfg,
    pub scratch: PathBuf,
    /// durable image (== scratch file contents between checks)
    pub durable: Vec<u8>,
    pub seen: HashSet<u64>,
    pub images_checked: u64,
    pub images_deduped: u64,
    pub nontrivial: u64,
    pub nontrivial_hashes: Vec<u64>,
    pub base_gen: u64,
    pub samples: Vec<String>,
}

fn hash_bytes(parts: &[(u64, &[u8])], size: u64) -> u64 {
    let mut h: u64 = 0xcbf29ce484222325 ^ size.wrapping_mul(0x9E3779B97F4A7C15);
    for (off, d) in parts {
        h ^= *off;
        h = h.wrapping_mul(0x100000001b3);
        for c in d.chunks(8) {
            let mut w = [0u8; 8];
            w[..c.len()].copy_from_slice(c);
            h ^= u64::from_le_bytes(w);
            h = h.wrapping_mul(0x100000001b3);
            h ^= h >> 31;
        }
    }
    h
}

impl ImageChecker {
    pub fn new(cfg: Cfg, scratch: PathBuf) -> ImageChecker {
        let _ = std::fs::remove_file(&scratch);
        ImageChecker { cfg, scratch, durable: Vec::new(), seen: HashSet::new(), images_checked: 0, images_deduped: 0, nontrivial: 0, nontrivial_hashes: Vec::new(), base_gen: 0, samples: Vec::new() }
    }

    fn pwrite(&self, off: u64, data: &[u8]) -> Result<(), Failure> {
        use std::io::{Seek, SeekFrom, Write};
        let mut f = std::fs::OpenOptions::new().write(true).create(true).open(&self.scratch).map_err(|e| Failure::new("io", e.to_string()))?;
        f.seek(SeekFrom::Start(off)).map_err(|e| Failure::new("io", e.to_string()))?;
        f.write_all(data).map_err(|e| Failure::new("io", e.to_string()))
    }

    fn set_len(&self, len: u64) -> Result<(), Failure> {
        let f = std::fs::OpenOptions::new().write(true).create(true).open(&self.scratch).map_err(|e| Failure::new("io", e.to_string()))?;
        f.set_len(len).map_err(|e| Failure::new("io", e.to_string()))
    }

    /// Makes the given writes durable (a completed sync) with the given file size.
    pub fn sync(&mut self, writes: &[W], size: u64) -> Result<(), Failure> {
        self.base_gen += 1;
        self.seen.clear();
        if self.durable.len() as u64 != size {
            self.durable.resize(size as usize, 0);
            self.set_len(size)?;
        }
        for w in writes {
            let end = (w.off as usize + w.data.len()).min(self.durable.len());
            if (w.off as usize) < end {
                let n = end - w.off as usize;
                self.durable[w.off as usize..end].copy_from_slice(&w.data[..n]);
                self.pwrite(w.off, &w.data[..n])?;
            }
        }
        Ok(())
    }

    /// Checks one crash image against the allowed states. `unsynced` = writes since the last sync,
    /// `cur_size` = file size as last observed.
    pub fn check(&mut self, unsynced: &[W], cur_size: u64, spec: &ImageSpec, allowed: &[&MBucket], what: &str) -> Result<(), Failure> {
        let dsize = self.durable.len() as u64;
        let size = if spec.size_applied { cur_size } else { dsize };
        // deltas (clipped to the image size)
        let mut deltas: Vec<(u64, Vec<u8>)> = Vec::new();
        for (wi, ranges) in &spec.parts {
            let w = &unsynced[*wi];
            for (a, b) in ranges {
                let start = w.off + *a as u64;
                let mut end = w.off + *b as u64;
                if end > size {
                    end = size;
                }
                if start < end {
                    deltas.push((start, w.data[*a..*a + (end - start) as usize].to_vec()));
                }
            }
        }
        let hparts: Vec<(u64, &[u8])> = deltas.iter().map(|(o, d)| (*o, d.as_slice())).collect();
        let h = hash_bytes(&hparts, size);
        if !self.seen.insert(h) {
            self.images_deduped += 1;
            return Ok(());
        }
        self.images_checked += 1;
        if spec.nontrivial(unsynced) {
            self.nontrivial += 1;
            if self.nontrivial_hashes.len() < 200_000 {
                self.nontrivial_hashes.push(h ^ self.base_gen.wrapping_mul(0x9E3779B97F4A7C15));
            }
            if self.samples.len() < 3 && self.nontrivial % 97 == 1 {
                self.samples.push(format!("{}: {}", what, spec.desc));
            }
        }
        // apply
        let mut saved: Vec<(u64, Vec<u8>)> = Vec::new();
        if size != dsize {
            self.durable.resize(size as usize, 0);
            self.set_len(size)?;
        }
        for (off, d) in &deltas {
            let o = *off as usize;
            saved.push((*off, self.durable[o..o + d.len()].to_vec()));
            self.durable[o..o + d.len()].copy_from_slice(d);
            self.pwrite(*off, d)?;
        }
        let r = self.check_current(allowed, what, &spec.desc);
        // undo (reverse order: overlapping writes restore correctly)
        for (off, d) in saved.iter().rev() {
            let o = *off as usize;
            self.durable[o..o + d.len()].copy_from_slice(d);
            self.pwrite(*off, d)?;
        }
        if size != dsize {
            self.durable.resize(dsize as usize, 0);
            self.set_len(dsize)?;
        }
        r
    }

    /// The image currently in `durable` / the scratch file must be sound and show one of `allowed`.
    pub fn check_current(&mut self, allowed: &[&MBucket], what: &str, desc: &str) -> Result<(), Failure> {
        let ps = self.cfg.pagesize;
        // independent parser on the bytes
        let rep = fsck::fsck(&self.durable, ps);
        if !rep.ok() {
            return Err(Failure::new("crash_fsck", format!("{} [{}]: image not structurally sound: {}", what, desc, rep.errors.join("; "))));
        }
        let fd = rep.dump.as_ref().unwrap();
        let which = allowed.iter().position(|m| crate::model::diff(m, fd, &mut vec![], true).is_none());
        if which.is_none() {
            let d = crate::model::diff(allowed[allowed.len() - 1], fd, &mut vec![], true).unwrap_or_default();
            return Err(Failure::new("crash_state", format!("{} [{}]: image shows neither the previous nor the new state (independent parser): vs newest allowed state: {}", what, desc, d)));
        }
        // and through the public API
        let cfg = self.cfg.clone();
        let path = self.scratch.clone();
        let r = catch(|| -> Result<MBucket, Failure> {
            let db = open_db(&cfg, &path)?;
            dump_db(&db)
        });
        let d = match r {
            Err(p) => {
                let mut f = Failure::from_panic(p);
                f.msg = format!("{} [{}]: reopening the image panicked: {}", what, desc, f.msg);
                return Err(f);
            }
            Ok(Err(mut f)) => {
                f.msg = format!("{} [{}]: reopening the image failed: {}", what, desc, f.msg);
                return Err(f);
            }
            Ok(Ok(d)) => d,
        };
        if !allowed.iter().any(|m| crate::model::diff(m, &d, &mut vec![], false).is_none()) {
            return compare_dump(allowed[allowed.len() - 1], &d, &format!("{} [{}]: reopened image shows neither allowed state", what, desc));
        }
        Ok(())
    }
}

fn full(w: &W) -> Vec<(usize, usize)> {
    vec![(0, w.data.len())]
}

/// Enumerates crash images for one group of unsynced writes.
/// `is_header(i)` tells which writes are header-page writes (torn at 8-byte words).
/// Write indices singled out by the per-write image families: all of them for groups of up to 64
/// writes; for larger groups (commits of hundreds of pages) the first and last four, every
/// header write and about 24 evenly spaced ones.
fn picked(k: usize, unsynced: &[W], pagesize: u64) -> Vec<usize> {
    if k <= 64 {
        return (0..k).collect();
    }
    let mut v: Vec<usize> = (0..4).chain(k - 4..k).collect();
    let step = (k / 24).max(1);
    v.extend((0..k).step_by(step));
    v.extend((0..k).filter(|i| unsynced[*i].off < 2 * pagesize));
    v.sort_unstable();
    v.dedup();
    v
}

pub fn enumerate_images(unsynced: &[W], size_changed: bool, pagesize: u64, rng: &mut Rng, exhaustive_up_to: usize, random_subsets: usize) -> (Vec<ImageSpec>, bool) {
    let k = unsynced.len();
    let mut out: Vec<ImageSpec> = Vec::new();
    let mut exhaustive = false;
    let sizes: Vec<bool> = if size_changed { vec![true, false] } else { vec![true] };
    let is_header = |w: &W| w.off < 2 * pagesize;
    let mut push_subset = |mask: &dyn Fn(usize) -> bool, desc: String, out: &mut Vec<ImageSpec>| {
        for sa in &sizes {
            let parts: Vec<(usize, Vec<(usize, usize)>)> = (0..k).filter(|i| mask(*i)).map(|i| (i, full(&unsynced[i]))).collect();
            out.push(ImageSpec { parts, size_applied: *sa, desc: format!("{}{}", desc, if *sa { "" } else { ", size change lost" }) });
        }
    };
    if k <= exhaustive_up_to {
        exhaustive = true;
        for m in 0u32..(1u32 << k) {
            push_subset(&|i| m & (1 << i) != 0, format!("power loss: subset {:#b} of {} unsynced writes", m, k), &mut out);
        }
    } else {
        push_subset(&|_| false, "power loss: none of the unsynced writes".into(), &mut out);
        push_subset(&|_| true, "all unsynced writes".into(), &mut out);
        for j in picked(k, unsynced, pagesize) {
            push_subset(&|i| i == j, format!("power loss: only write {} of {}", j, k), &mut out);
            push_subset(&|i| i != j, format!("power loss: all but write {} of {}", j, k), &mut out);
            push_subset(&|i| i <= j, format!("process kill / power loss: first {} of {} writes", j + 1, k), &mut out);
            push_subset(&|i| i >= j, format!("power loss: last {} of {} writes", k - j, k), &mut out);
        }
        push_subset(&|i| is_header(&unsynced[i]), "power loss: header write(s) only".into(), &mut out);
        push_subset(&|i| !is_header(&unsynced[i]), "power loss: data writes only".into(), &mut out);
        for r in 0..random_subsets {
            let bits: Vec<bool> = (0..k).map(|_| rng.chance(1, 2)).collect();
            push_subset(&|i| bits[i], format!("power loss: random subset #{}", r), &mut out);
        }
    }
    // torn writes: every prefix subset with its last write cut at 512-byte sectors (process kill /
    // power loss), header writes cut at every 8-byte word, plus seeded sector subsets
    for j in picked(k, unsynced, pagesize) {
        let w = &unsynced[j];
        let n = w.data.len();
        let mut cuts: Vec<usize> = Vec::new();
        if is_header(w) {
            let mut c = 8;
            while c < n.min(136) {
                cuts.push(c);
                c += 8;
            }
        }
        let mut c = 512;
        while c < n {
            cuts.push(c);
            c += 512;
        }
        if cuts.len() > 24 {
            // sample for very long writes
            let step = cuts.len() / 24 + 1;
            cuts = cuts.into_iter().step_by(step).collect();
        }
        for cut in cuts {
            for sa in &sizes {
                // prefix of writes, last one torn (prefix of bytes persisted)
                let mut parts: Vec<(usize, Vec<(usize, usize)>)> = (0..j).map(|i| (i, full(&unsynced[i]))).collect();
                parts.push((j, vec![(0, cut)]));
                out.push(ImageSpec { parts, size_applied: *sa, desc: format!("first {} writes, write {} torn after {} bytes{}", j, j, cut, if *sa { "" } else { ", size change lost" }) });
                // all other writes persisted, this one only partly (tail persisted)
                let mut parts: Vec<(usize, Vec<(usize, usize)>)> = (0..k).filter(|i| *i != j).map(|i| (i, full(&unsynced[i]))).collect();
                parts.push((j, vec![(cut, n)]));
                out.push(ImageSpec { parts, size_applied: *sa, desc: format!("all writes but write {} whose first {} bytes were lost{}", j, cut, if *sa { "" } else { ", size change lost" }) });
            }
        }
        // header record torn at 8-byte word granularity, any subset of words: every single word
        // missing, every single word alone, and seeded subsets (the rest of the page persists or not)
        if is_header(w) && n >= 104 {
            // bytes 0..104 hold the page header and the current-format record; a legacy record's
            // digest extends to byte 128, so the words up to there are torn independently as well
            let words = if n >= 128 { 16usize } else { 13usize };
            let others: Vec<(usize, Vec<(usize, usize)>)> = (0..k).filter(|i| *i != j).map(|i| (i, full(&unsynced[i]))).collect();
            // if the same sync epoch holds a second header write, it may be lost while this one tears
            let other_headers: Vec<usize> = (0..k).filter(|i| *i != j && is_header(&unsynced[*i])).collect();
            let mut subsets: Vec<(Vec<bool>, String)> = Vec::new();
            for wi in 0..words {
                let mut all = vec![true; words];
                all[wi] = false;
                subsets.push((all, format!("header write {} with word {} (bytes {}..{}) not persisted", j, wi, wi * 8, wi * 8 + 8)));
                let mut one = vec![false; words];
                one[wi] = true;
                subsets.push((one, format!("header write {} with only word {} persisted", j, wi)));
            }
            for r in 0..24 {
                let bits: Vec<bool> = (0..words).map(|_| rng.chance(1, 2)).collect();
                subsets.push((bits, format!("header write {} with a random subset of its words (#{})", j, r)));
            }
            for (bits, desc) in subsets {
                let mut ranges: Vec<(usize, usize)> = Vec::new();
                for (wi, b) in bits.iter().enumerate() {
                    if *b {
                        ranges.push((wi * 8, wi * 8 + 8));
                    }
                }
                if rng.chance(1, 2) {
                    ranges.push((words * 8, n));
                }
                let mut parts = others.clone();
                parts.push((j, ranges.clone()));
                out.push(ImageSpec { parts, size_applied: true, desc: desc.clone() });
                for oh in &other_headers {
                    let mut parts: Vec<(usize, Vec<(usize, usize)>)> = others.iter().filter(|(i, _)| i != oh).cloned().collect();
                    parts.push((j, ranges.clone()));
                    out.push(ImageSpec { parts, size_applied: true, desc: format!("{}, header write {} lost", desc, oh) });
                }
            }
        }
        // seeded sector subset of this write with all others persisted / none persisted
        if n > 512 {
            let sectors = (n + 511) / 512;
            let mut ranges = Vec::new();
            for s in 0..sectors {
                if rng.chance(1, 2) {
                    ranges.push((s * 512, ((s + 1) * 512).min(n)));
                }
            }
            let mut parts: Vec<(usize, Vec<(usize, usize)>)> = (0..k).filter(|i| *i != j).map(|i| (i, full(&unsynced[i]))).collect();
            parts.push((j, ranges.clone()));
            out.push(ImageSpec { parts, size_applied: true, desc: format!("all writes, write {} with a random subset of its sectors", j) });
        }
    }
    (out, exhaustive)
}
