//! Byte-level decoder of the E1 grammar for coverage-guided fuzzing (libFuzzer via cargo-fuzz):
//! the same `HistoryCase` the proptest strategies produce, hand-decoded with `arbitrary::Unstructured`.

use crate::ops::*;
use arbitrary::{Result, Unstructured};

fn small_key(u: &mut Unstructured) -> Result<Vec<u8>> {
    let n = 1 + (u.arbitrary::<u8>()? % 4) as usize;
    let mode = u.arbitrary::<u8>()? % 8;
    let mut k = Vec::with_capacity(n);
    for _ in 0..n {
        let b = u.arbitrary::<u8>()?;
        k.push(match mode {
            0..=4 => [b'a', b'b', b'c', b'm', b'z'][(b % 5) as usize],
            5 | 6 => [b'a', b'b', 0u8, 0xffu8][(b % 4) as usize],
            _ => b,
        });
    }
    Ok(k)
}

fn key_sel(u: &mut Unstructured) -> Result<KeySel> {
    Ok(match u.arbitrary::<u8>()? % 12 {
        0 | 1 | 2 => KeySel::Ex(u.arbitrary()?),
        3 | 4 => KeySel::ExKv(u.arbitrary()?),
        5 => KeySel::ExBucket(u.arbitrary()?),
        6 | 7 => KeySel::Near(u.arbitrary()?, u.arbitrary::<u8>()? % 4),
        8 | 9 | 10 => KeySel::Lit(small_key(u)?),
        _ => {
            if u.arbitrary::<bool>()? {
                KeySel::Empty
            } else {
                KeySel::Huge { len: u.arbitrary::<u16>()? % 3000, seed: u.arbitrary()? }
            }
        }
    })
}

fn val_sel(u: &mut Unstructured, ps: u32) -> Result<ValSel> {
    Ok(match u.arbitrary::<u8>()? % 15 {
        0 | 1 => ValSel::Lit(vec![]),
        2..=7 => {
            let n = 1 + (u.arbitrary::<u8>()? % 11) as usize;
            ValSel::Lit(u.bytes(n.min(u.len()))?.to_vec())
        }
        8..=11 => ValSel::Fill { len: ps / 8 + u.arbitrary::<u16>()? as u32 % (ps / 4), seed: u.arbitrary()? },
        12 | 13 => ValSel::Fill { len: ps - 200 + u.arbitrary::<u16>()? as u32 % 400, seed: u.arbitrary()? },
        _ => ValSel::Fill { len: 2 * ps + u.arbitrary::<u16>()? as u32 % (10 * ps), seed: u.arbitrary()? },
    })
}

fn bound(u: &mut Unstructured) -> Result<BoundSel> {
    Ok(match u.arbitrary::<u8>()? % 5 {
        0 => BoundSel::Unb,
        1 | 2 => BoundSel::Inc(key_sel(u)?),
        _ => BoundSel::Exc(key_sel(u)?),
    })
}

fn op(u: &mut Unstructured, ps: u32) -> Result<Op> {
    let b: u16 = u.arbitrary()?;
    Ok(match u.arbitrary::<u8>()? % 32 {
        0..=7 => Op::Put { b, k: key_sel(u)?, v: val_sel(u, ps)?, kk: u.arbitrary::<u8>()? % 11, vk: u.arbitrary::<u8>()? % 11 },
        8 => Op::Get { b, k: key_sel(u)? },
        9 => Op::GetKv { b, k: key_sel(u)? },
        10..=13 => Op::Delete { b, k: key_sel(u)? },
        14..=16 => Op::PutRun {
            b,
            base: if u.arbitrary::<bool>()? { vec![] } else { vec![[b'a', b'k', b'z'][(u.arbitrary::<u8>()? % 3) as usize]] },
            start: u.arbitrary::<u16>()? % 60,
            step: 1 + u.arbitrary::<u8>()? % 3,
            n: 1 + u.arbitrary::<u8>()? % 39,
            klen: [0u8, 0, 8, 60, 200][(u.arbitrary::<u8>()? % 5) as usize],
            vlen: [0u16, 10, 90, 200, 400, 1000][(u.arbitrary::<u8>()? % 6) as usize],
        },
        17..=19 => Op::DeleteRun { b, start: u.arbitrary()?, n: 1 + u.arbitrary::<u8>()? % 39 },
        20 => Op::GetBucket { b, k: key_sel(u)?, kk: u.arbitrary::<u8>()? % 11 },
        21..=23 => Op::CreateBucket { b, k: key_sel(u)?, kk: u.arbitrary::<u8>()? % 11 },
        24 => Op::GetOrCreate { b, k: key_sel(u)?, kk: u.arbitrary::<u8>()? % 11 },
        25 | 26 => Op::DeleteBucket { b, k: if u.arbitrary::<u8>()? % 5 == 0 { key_sel(u)? } else { KeySel::ExBucket(u.arbitrary()?) }, kk: u.arbitrary::<u8>()? % 11 },
        27 => Op::NextInt { b },
        28 => Op::Scan { b, extra: u.arbitrary::<u8>()? % 4 },
        29 => Op::Seek { b, k: key_sel(u)?, n: u.arbitrary::<u8>()? % 6 },
        30 => Op::Range { b, lo: bound(u)?, hi: bound(u)?, mode: u.arbitrary::<u8>()? % 6 },
        _ => {
            if u.arbitrary::<bool>()? {
                Op::Buckets { b }
            } else {
                Op::KvPairs { b }
            }
        }
    })
}

/// Decodes as much of a history as the bytes allow (never fails: running out of bytes ends it).
pub fn decode_history(data: &[u8]) -> HistoryCase {
    let mut u = Unstructured::new(data);
    let cfg = match u.arbitrary::<u8>().unwrap_or(0) % 10 {
        0 => Cfg { pagesize: 1024, num_pages: 4, strict: false, populate: false },
        1 => Cfg { pagesize: 4096, num_pages: 32, strict: false, populate: false },
        2 => Cfg { pagesize: 1024, num_pages: 32, strict: true, populate: false },
        _ => Cfg::default(),
    };
    let ps = cfg.pagesize as u32;
    let fresh_handles = u.arbitrary::<u8>().unwrap_or(0) % 5 == 0;
    let mut txs = vec![TxSpec {
        kind: TxKind::Commit,
        ops: vec![
            Op::GetOrCreate { b: 0, k: KeySel::Lit(b"a".to_vec()), kk: 2 },
            Op::GetOrCreate { b: 0, k: KeySel::Lit(b"b".to_vec()), kk: 2 },
        ],
    }];
    'outer: while txs.len() < 10 {
        let kind = match u.arbitrary::<u8>() {
            Err(_) => break,
            Ok(k) => match k % 16 {
                0..=9 => TxKind::Commit,
                10 | 11 => TxKind::Rollback,
                12 | 13 => TxKind::Read,
                _ => TxKind::Reopen,
            },
        };
        let mut ops = Vec::new();
        if kind != TxKind::Reopen {
            let n = match u.arbitrary::<u8>() {
                Err(_) => 0,
                Ok(n) => n % 28,
            };
            for _ in 0..n {
                match op(&mut u, ps) {
                    Ok(o) => ops.push(o),
                    Err(_) => {
                        txs.push(TxSpec { kind, ops });
                        break 'outer;
                    }
                }
            }
        }
        txs.push(TxSpec { kind, ops });
        if u.is_empty() {
            break;
        }
    }
    HistoryCase { cfg, fresh_handles, txs, dance: 0 }
}
