//! E2: independent file checker. Safe Rust over `&[u8]`, written from the pinned
//! on-disk layout (DESIGN.md 1.1); shares no code with jammdb.

use crate::model::{MBucket, MNode};
use sha3::{Digest, Sha3_256};

pub const PAGE_HDR: usize = 32; // payload offset inside a page
pub const T_BRANCH: u8 = 1;
pub const T_LEAF: u8 = 2;
pub const T_META: u8 = 3;
pub const T_FREELIST: u8 = 4;
const LEAF_ELEM: usize = 32;
const BRANCH_ELEM: usize = 24;

#[derive(Clone, Debug, PartialEq, Eq)]
pub struct MetaInfo {
    pub slot: u8,
    pub legacy: bool,
    pub meta_page: u32,
    pub magic: u32,
    pub version: u32,
    pub pagesize: u64,
    pub root_page: u64,
    pub root_next_int: u64,
    pub num_pages: u64,
    pub freelist_page: u64,
    pub tx_id: u64,
}

#[derive(Clone, Debug, Default)]
pub struct Stats {
    pub reachable_pages: u64,
    pub leaf_pages: u64,
    pub branch_pages: u64,
    pub overflow_pages: u64,
    pub free_entries: u64,
    pub freelist_run: u64,
    pub max_height: u32,
    pub buckets: u64,
    pub entries: u64,
    pub empty_branches: u64,
    pub num_pages: u64,
    /// page ids of every reachable page (first page of each run) and the freelist page
    pub used_pages: Vec<u64>,
    /// (first page, run length) of every reachable page run and the free-list page run
    pub used_runs: Vec<(u64, u64)>,
    pub free_list: Vec<u64>,
}

#[derive(Clone, Debug)]
pub struct Report {
    pub errors: Vec<String>,
    pub meta: Option<MetaInfo>,
    /// both header slots as parsed (None = invalid)
    pub metas: [Option<MetaInfo>; 2],
    pub dump: Option<MBucket>,
    pub stats: Stats,
}

impl Report {
    pub fn ok(&self) -> bool {
        self.errors.is_empty()
    }
}

fn u64_at(b: &[u8], off: usize) -> Option<u64> {
    let s = b.get(off..off.checked_add(8)?)?;
    Some(u64::from_le_bytes(s.try_into().ok()?))
}
fn u32_at(b: &[u8], off: usize) -> Option<u32> {
    let s = b.get(off..off.checked_add(4)?)?;
    Some(u32::from_le_bytes(s.try_into().ok()?))
}

fn fnv1a64(chunks: &[&[u8]]) -> u64 {
    let mut h: u64 = 0xcbf29ce484222325;
    for c in chunks {
        for b in *c {
            h ^= *b as u64;
            h = h.wrapping_mul(0x100000001b3);
        }
    }
    h
}

/// The byte string both checksums are computed over.
pub fn meta_hash_input(m: &MetaInfo) -> Vec<u8> {
    let mut v = Vec::with_capacity(60);
    v.extend_from_slice(&m.meta_page.to_be_bytes());
    v.extend_from_slice(&m.magic.to_be_bytes());
    v.extend_from_slice(&m.version.to_be_bytes());
    v.extend_from_slice(&m.pagesize.to_be_bytes());
    v.extend_from_slice(&m.root_page.to_be_bytes());
    v.extend_from_slice(&m.root_next_int.to_be_bytes());
    v.extend_from_slice(&m.num_pages.to_be_bytes());
    v.extend_from_slice(&m.freelist_page.to_be_bytes());
    v.extend_from_slice(&m.tx_id.to_be_bytes());
    v
}

pub fn meta_fnv(m: &MetaInfo) -> u64 {
    fnv1a64(&[&meta_hash_input(m)])
}

pub fn meta_sha3(m: &MetaInfo) -> [u8; 32] {
    let mut h = Sha3_256::new();
    h.update(meta_hash_input(m));
    let r = h.finalize();
    let mut out = [0u8; 32];
    out.copy_from_slice(&r[..]);
    out
}

/// Parse the header record in slot 0 or 1. Returns (new-format-valid, legacy-valid) candidates.
pub fn parse_meta(bytes: &[u8], pagesize: u64, slot: u8) -> (Option<MetaInfo>, Option<MetaInfo>) {
    let base = (slot as u64).checked_mul(pagesize).map(|x| x as usize);
    let base = match base {
        Some(b) => b,
        None => return (None, None),
    };
    let page = match bytes.get(base..base.saturating_add(pagesize as usize)) {
        Some(p) => p,
        None => return (None, None),
    };
    if page.get(8).copied() != Some(T_META) {
        return (None, None);
    }
    let rd = || -> Option<MetaInfo> {
        Some(MetaInfo {
            slot,
            legacy: false,
            meta_page: u32_at(page, 32)?,
            magic: u32_at(page, 36)?,
            version: u32_at(page, 40)?,
            pagesize: u64_at(page, 48)?,
            root_page: u64_at(page, 56)?,
            root_next_int: u64_at(page, 64)?,
            num_pages: u64_at(page, 72)?,
            freelist_page: u64_at(page, 80)?,
            tx_id: u64_at(page, 88)?,
        })
    };
    let m = match rd() {
        Some(m) => m,
        None => return (None, None),
    };
    let new_ok = u64_at(page, 96) == Some(meta_fnv(&m));
    let old_ok = page.get(96..128).map(|h| h == meta_sha3(&m)).unwrap_or(false);
    let mut lm = m.clone();
    lm.legacy = true;
    (
        if new_ok { Some(m) } else { None },
        if old_ok { Some(lm) } else { None },
    )
}

/// Header selection as the pinned code does it: new format first (newer tx id wins,
/// ties go to slot 1), then legacy.
pub fn choose_meta(bytes: &[u8], pagesize: u64) -> (Option<MetaInfo>, [Option<MetaInfo>; 2]) {
    let (n0, l0) = parse_meta(bytes, pagesize, 0);
    let (n1, l1) = parse_meta(bytes, pagesize, 1);
    let pick = |a: &Option<MetaInfo>, b: &Option<MetaInfo>| -> Option<MetaInfo> {
        match (a, b) {
            (Some(a), Some(b)) => Some(if a.tx_id > b.tx_id { a.clone() } else { b.clone() }),
            (Some(a), None) => Some(a.clone()),
            (None, Some(b)) => Some(b.clone()),
            (None, None) => None,
        }
    };
    let slots = [n0.clone().or(l0.clone()), n1.clone().or(l1.clone())];
    let chosen = pick(&n0, &n1).or_else(|| pick(&l0, &l1));
    (chosen, slots)
}

struct Walker<'a> {
    bytes: &'a [u8],
    ps: usize,
    num_pages: u64,
    used: Vec<u8>, // 0 unused, 1 meta, 2 tree, 3 freelist page, 4 freelist entry
    errors: Vec<String>,
    stats: Stats,
    budget: u64,
}

struct Sub {
    min: Option<Vec<u8>>,
    max: Option<Vec<u8>>,
    height: u32,
}

impl<'a> Walker<'a> {
    fn err(&mut self, s: String) {
        if self.errors.len() < 20 {
            self.errors.push(s);
        }
    }

    /// Claims pages [id, id+n) for `kind`; false (and an error) if out of range or already used.
    fn claim(&mut self, id: u64, n: u64, kind: u8, what: &str) -> bool {
        if id < 2 || n == 0 || id.checked_add(n).map(|e| e > self.num_pages).unwrap_or(true) {
            self.err(format!(
                "{}: page run {}+{} outside [2,{})",
                what, id, n, self.num_pages
            ));
            return false;
        }
        let mut ok = true;
        for p in id..id + n {
            let u = self.used[p as usize];
            if u != 0 {
                self.err(format!(
                    "{}: page {} already accounted for (as {}) — double use",
                    what,
                    p,
                    kind_name(u)
                ));
                ok = false;
            }
        }
        if ok {
            for p in id..id + n {
                self.used[p as usize] = kind;
            }
        }
        ok
    }

    fn page_hdr(&self, id: u64) -> Option<(u64, u8, u64, u64)> {
        let base = (id as usize).checked_mul(self.ps)?;
        let b = self.bytes.get(base..base.checked_add(PAGE_HDR)?)?;
        Some((
            u64_at(b, 0)?,
            *b.get(8)?,
            u64_at(b, 16)?,
            u64_at(b, 24)?,
        ))
    }

    /// Walks one bucket tree rooted at `root`, returns its contents.
    fn walk_bucket(&mut self, root: u64, next_int: u64, what: &str, depth: u32) -> MBucket {
        self.stats.buckets += 1;
        let mut out = MBucket {
            next_int,
            entries: Default::default(),
        };
        if depth > 64 {
            self.err(format!("{}: bucket nesting deeper than 64", what));
            return out;
        }
        let mut entries: Vec<(Vec<u8>, MNode)> = Vec::new();
        let sub = self.walk_page(root, what, &mut entries, depth, 0);
        if let Some(s) = &sub {
            if s.height > self.stats.max_height {
                self.stats.max_height = s.height;
            }
        }
        // global order inside the bucket
        for w in entries.windows(2) {
            if w[0].0 >= w[1].0 {
                self.err(format!(
                    "{}: keys not strictly ascending across pages: {} then {}",
                    what,
                    crate::model::hex(&w[0].0),
                    crate::model::hex(&w[1].0)
                ));
                break;
            }
        }
        for (k, n) in entries {
            self.stats.entries += 1;
            out.entries.insert(k, n);
        }
        out
    }

    fn walk_page(
        &mut self,
        id: u64,
        what: &str,
        entries: &mut Vec<(Vec<u8>, MNode)>,
        bdepth: u32,
        level: u32,
    ) -> Option<Sub> {
        if self.budget == 0 {
            self.err("walk budget exhausted".into());
            return None;
        }
        self.budget -= 1;
        if level > 64 {
            self.err(format!("{}: tree deeper than 64 levels at page {}", what, id));
            return None;
        }
        let (pid, ptype, count, overflow) = match self.page_hdr(id) {
            Some(h) => h,
            None => {
                self.err(format!("{}: page {} lies outside the file", what, id));
                return None;
            }
        };
        let run = match overflow.checked_add(1) {
            Some(r) => r,
            None => {
                self.err(format!("{}: page {} overflow field overflows", what, id));
                return None;
            }
        };
        if !self.claim(id, run, 2, &format!("{} page {}", what, id)) {
            return None;
        }
        self.stats.reachable_pages += run;
        self.stats.overflow_pages += overflow;
        self.stats.used_pages.push(id);
        self.stats.used_runs.push((id, run));
        if pid != id {
            self.err(format!(
                "{}: page at position {} carries id {}",
                what, id, pid
            ));
        }
        let base = id as usize * self.ps;
        let run_len = match (run as usize).checked_mul(self.ps) {
            Some(l) => l,
            None => {
                self.err(format!("{}: page {} run too large", what, id));
                return None;
            }
        };
        let run_end = base + run_len;
        if run_end > self.bytes.len() {
            self.err(format!("{}: page {} run extends past end of file", what, id));
            return None;
        }
        let count = count as usize;
        match ptype {
            T_LEAF => {
                self.stats.leaf_pages += 1;
                let hdr_end = match count
                    .checked_mul(LEAF_ELEM)
                    .and_then(|x| x.checked_add(base + PAGE_HDR))
                {
                    Some(e) if e <= run_end => e,
                    _ => {
                        self.err(format!(
                            "{}: leaf page {} element headers ({}) exceed page run",
                            what, id, count
                        ));
                        return None;
                    }
                };
                let mut min = None;
                let mut max: Option<Vec<u8>> = None;
                for i in 0..count {
                    let e = base + PAGE_HDR + i * LEAF_ELEM;
                    let node_type = self.bytes[e];
                    let pos = u64_at(self.bytes, e + 8).unwrap() as usize;
                    let ks = u64_at(self.bytes, e + 16).unwrap() as usize;
                    let vs = u64_at(self.bytes, e + 24).unwrap() as usize;
                    let kstart = e.checked_add(pos);
                    let kend = kstart.and_then(|s| s.checked_add(ks));
                    let vend = kend.and_then(|s| s.checked_add(vs));
                    let (kstart, kend, vend) = match (kstart, kend, vend) {
                        (Some(a), Some(b), Some(c)) if a >= hdr_end && c <= run_end => (a, b, c),
                        _ => {
                            self.err(format!(
                                "{}: leaf page {} element {} lies outside its page run",
                                what, id, i
                            ));
                            return None;
                        }
                    };
                    let key = self.bytes[kstart..kend].to_vec();
                    let val = &self.bytes[kend..vend];
                    if let Some(m) = &max {
                        if *m >= key {
                            self.err(format!(
                                "{}: leaf page {} keys not strictly ascending at element {}",
                                what, id, i
                            ));
                        }
                    }
                    if min.is_none() {
                        min = Some(key.clone());
                    }
                    max = Some(key.clone());
                    match node_type {
                        0 => entries.push((key, MNode::Val(val.to_vec()))),
                        1 => {
                            if vs != 16 {
                                self.err(format!(
                                    "{}: leaf page {} bucket element {} has value size {}",
                                    what, id, i, vs
                                ));
                                return None;
                            }
                            let rp = u64_at(val, 0).unwrap();
                            let ni = u64_at(val, 8).unwrap();
                            let sub_what =
                                format!("{}{}/", what, crate::model::hex(&key));
                            let b = self.walk_bucket(rp, ni, &sub_what, bdepth + 1);
                            entries.push((key, MNode::Bucket(b)));
                        }
                        t => {
                            self.err(format!(
                                "{}: leaf page {} element {} has node type {}",
                                what, id, i, t
                            ));
                            return None;
                        }
                    }
                }
                Some(Sub {
                    min,
                    max,
                    height: 1,
                })
            }
            T_BRANCH => {
                self.stats.branch_pages += 1;
                let hdr_end = match count
                    .checked_mul(BRANCH_ELEM)
                    .and_then(|x| x.checked_add(base + PAGE_HDR))
                {
                    Some(e) if e <= run_end => e,
                    _ => {
                        self.err(format!(
                            "{}: branch page {} element headers ({}) exceed page run",
                            what, id, count
                        ));
                        return None;
                    }
                };
                if count == 0 {
                    self.stats.empty_branches += 1;
                }
                let mut seps: Vec<(Vec<u8>, u64)> = Vec::with_capacity(count);
                for i in 0..count {
                    let e = base + PAGE_HDR + i * BRANCH_ELEM;
                    let child = u64_at(self.bytes, e).unwrap();
                    let ks = u64_at(self.bytes, e + 8).unwrap() as usize;
                    let pos = u64_at(self.bytes, e + 16).unwrap() as usize;
                    let kstart = e.checked_add(pos);
                    let kend = kstart.and_then(|s| s.checked_add(ks));
                    match (kstart, kend) {
                        (Some(a), Some(b)) if a >= hdr_end && b <= run_end => {
                            seps.push((self.bytes[a..b].to_vec(), child));
                        }
                        _ => {
                            self.err(format!(
                                "{}: branch page {} element {} lies outside its page run",
                                what, id, i
                            ));
                            return None;
                        }
                    }
                }
                for (i, w) in seps.windows(2).enumerate() {
                    if w[0].0 >= w[1].0 {
                        self.err(format!(
                            "{}: branch page {} separators not strictly ascending at element {}",
                            what,
                            id,
                            i + 1
                        ));
                    }
                }
                let mut min = None;
                let mut max = None;
                let mut height = 0;
                for i in 0..seps.len() {
                    let (sep, child) = (seps[i].0.clone(), seps[i].1);
                    let sub = self.walk_page(child, what, entries, bdepth, level + 1);
                    if let Some(s) = sub {
                        if let Some(m) = &s.min {
                            if sep.as_slice() > m.as_slice() {
                                self.err(format!(
                                    "{}: branch page {} separator {} ({}) is greater than the smallest key {} of its subtree (page {})",
                                    what, id, i, crate::model::hex(&sep), crate::model::hex(m), child
                                ));
                            }
                        }
                        if let (Some(mx), Some(next)) = (&s.max, seps.get(i + 1)) {
                            if mx.as_slice() >= next.0.as_slice() {
                                self.err(format!(
                                    "{}: branch page {} subtree {} (page {}) has max key {} not below next separator {}",
                                    what, id, i, child, crate::model::hex(mx), crate::model::hex(&next.0)
                                ));
                            }
                        }
                        if min.is_none() {
                            min = s.min.clone();
                        }
                        if s.max.is_some() {
                            max = s.max.clone();
                        }
                        if i > 0 && s.height != height {
                            self.err(format!(
                                "{}: branch page {} has children of different heights",
                                what, id
                            ));
                        }
                        height = height.max(s.height);
                    }
                }
                Some(Sub {
                    min,
                    max,
                    height: height + 1,
                })
            }
            t => {
                self.err(format!(
                    "{}: page {} reachable from the tree has type {}",
                    what, id, t
                ));
                None
            }
        }
    }
}

fn kind_name(k: u8) -> &'static str {
    match k {
        1 => "header",
        2 => "tree page",
        3 => "free-list page",
        4 => "free-list entry",
        _ => "unused",
    }
}

/// Full structural check of a database image.
pub fn fsck(bytes: &[u8], pagesize: u64) -> Report {
    fsck_len(bytes, pagesize, bytes.len() as u64)
}

/// As `fsck`, for an image of which only the prefix up to the high-water mark was read;
/// `file_len` is the real length of the file.
pub fn fsck_len(bytes: &[u8], pagesize: u64, file_len: u64) -> Report {
    let mut errors = Vec::new();
    let (meta, metas) = choose_meta(bytes, pagesize);
    let meta = match meta {
        Some(m) => m,
        None => {
            errors.push("no valid header".into());
            return Report {
                errors,
                meta: None,
                metas,
                dump: None,
                stats: Stats::default(),
            };
        }
    };
    if meta.pagesize != pagesize {
        errors.push(format!(
            "header records page size {} but {} was expected",
            meta.pagesize, pagesize
        ));
        return Report {
            errors,
            meta: Some(meta),
            metas,
            dump: None,
            stats: Stats::default(),
        };
    }
    let ps = pagesize as usize;
    let np = meta.num_pages;
    if np < 4 || np > (1 << 32) {
        errors.push(format!("header num_pages {} implausible", np));
        return Report {
            errors,
            meta: Some(meta),
            metas,
            dump: None,
            stats: Stats::default(),
        };
    }
    if file_len < np.saturating_mul(pagesize) || (bytes.len() as u64) < np.saturating_mul(pagesize).min(file_len) {
        errors.push(format!(
            "file length {} shorter than high-water mark {} pages × {}",
            file_len,
            np,
            pagesize
        ));
    }
    let mut w = Walker {
        bytes,
        ps,
        num_pages: np,
        used: vec![0u8; np as usize],
        errors,
        stats: Stats::default(),
        budget: 4_000_000,
    };
    w.stats.num_pages = np;
    w.used[0] = 1;
    w.used[1] = 1;
    let dump = w.walk_bucket(meta.root_page, meta.root_next_int, "/", 0);
    // free list page
    let fl = meta.freelist_page;
    match w.page_hdr(fl) {
        None => w.err(format!("free-list page {} outside the file", fl)),
        Some((pid, ptype, count, overflow)) => {
            let run = overflow.saturating_add(1);
            if ptype != T_FREELIST {
                w.err(format!("free-list page {} has type {}", fl, ptype));
            } else if w.claim(fl, run, 3, "free-list page") {
                w.stats.freelist_run = run;
                w.stats.used_pages.push(fl);
                w.stats.used_runs.push((fl, run));
                if pid != fl {
                    w.err(format!("free-list page at position {} carries id {}", fl, pid));
                }
                let base = fl as usize * ps;
                let run_end = base.saturating_add((run as usize).saturating_mul(ps));
                let need = (count as usize)
                    .checked_mul(8)
                    .and_then(|x| x.checked_add(base + PAGE_HDR));
                match need {
                    Some(e) if e <= run_end && e <= bytes.len() => {
                        let mut prev: Option<u64> = None;
                        for i in 0..count as usize {
                            let id = u64_at(bytes, base + PAGE_HDR + i * 8).unwrap();
                            if let Some(p) = prev {
                                if p >= id {
                                    w.err(format!(
                                        "free list not strictly ascending at entry {} ({} then {})",
                                        i, p, id
                                    ));
                                }
                            }
                            prev = Some(id);
                            w.stats.free_list.push(id);
                            if w.claim(id, 1, 4, &format!("free-list entry {}", i)) {
                                w.stats.free_entries += 1;
                            }
                        }
                    }
                    _ => w.err(format!(
                        "free-list page {}: {} entries exceed its page run",
                        fl, count
                    )),
                }
            }
        }
    }
    let mut unacc = Vec::new();
    for p in 2..np as usize {
        if w.used[p] == 0 {
            unacc.push(p);
        }
    }
    if !unacc.is_empty() {
        let shown: Vec<_> = unacc.iter().take(12).collect();
        w.err(format!(
            "{} page(s) below the high-water mark are neither reachable nor free: {:?}",
            unacc.len(),
            shown
        ));
    }
    Report {
        errors: w.errors,
        meta: Some(meta),
        metas,
        dump: Some(dump),
        stats: w.stats,
    }
}

/// Header (de)serialisation helpers used by the header-damage and golden-file checks.
pub fn write_meta_record(page: &mut [u8], m: &MetaInfo) {
    page[0..8].copy_from_slice(&(m.slot as u64).to_le_bytes());
    page[8] = T_META;
    page[32..36].copy_from_slice(&m.meta_page.to_le_bytes());
    page[36..40].copy_from_slice(&m.magic.to_le_bytes());
    page[40..44].copy_from_slice(&m.version.to_le_bytes());
    page[48..56].copy_from_slice(&m.pagesize.to_le_bytes());
    page[56..64].copy_from_slice(&m.root_page.to_le_bytes());
    page[64..72].copy_from_slice(&m.root_next_int.to_le_bytes());
    page[72..80].copy_from_slice(&m.num_pages.to_le_bytes());
    page[80..88].copy_from_slice(&m.freelist_page.to_le_bytes());
    page[88..96].copy_from_slice(&m.tx_id.to_le_bytes());
    if m.legacy {
        page[96..128].copy_from_slice(&meta_sha3(m));
    } else {
        page[96..104].copy_from_slice(&meta_fnv(m).to_le_bytes());
    }
}
