//! Coverage-guided tier: an extra shard of the thorough commands of C01 / C05 / C07 / C08 that runs
//! the cargo-fuzz target `history` (libFuzzer, ASan) from a fresh seeded corpus for a fixed number
//! of runs, replays every crash artifact through the ordinary interpreter, and classifies the
//! final corpus for the evidence. Unavailable tooling is reported as inconclusive text, not failure.

use crate::decode::decode_history;
use crate::interp::{run_history, RunOpts};
use crate::runner::*;
use std::process::Command;

pub fn opts_for_input(data: &[u8], path: std::path::PathBuf) -> (RunOpts, &'static str) {
    let mut opts = RunOpts::standard(path);
    let mut kind = "history";
    let last = data.last().copied().unwrap_or(0);
    if last & 1 == 1 {
        opts.full_check_every_op = true;
        kind = "history_c07";
    }
    if last & 2 == 2 {
        opts.bytes_unchanged = true;
        opts.dump_after_error = true;
        if kind == "history" {
            kind = "history_c06";
        }
    }
    (opts, kind)
}

pub fn fuzz_shard(ctx: &ShardCtx, known: &Known) -> ShardOut {
    let mut out = ShardOut::default();
    let root = verif_root();
    let fuzz_dir = root.join("fuzz");
    let work = ctx.scratch.join("fuzz");
    let corpus = work.join("corpus");
    let artifacts = work.join("artifacts");
    let _ = std::fs::create_dir_all(&corpus);
    let _ = std::fs::create_dir_all(&artifacts);
    // seeded starting corpus: random byte strings of several lengths (libFuzzer ramps length slowly from empty)
    let mut rng = Rng(ctx.shard_seed("fuzz-corpus"));
    for i in 0..64 {
        let len = 40 + rng.below(1500) as usize;
        let bytes: Vec<u8> = (0..len).map(|_| rng.next() as u8).collect();
        let _ = std::fs::write(corpus.join(format!("seed{:02}", i)), bytes);
    }
    let repo = std::env::var("JV_REPO").unwrap_or_else(|_| "/repo".into());
    let _ = std::fs::copy(format!("{}/Cargo.lock", repo), fuzz_dir.join("Cargo.lock"));
    let runs = std::env::var("JV_FUZZ_RUNS").ok().and_then(|s| s.parse().ok()).unwrap_or(ctx.tier.pick(2_000u64, 20_000u64));
    let jobs = 8;
    let st = Command::new("cargo")
        .args(["+nightly", "fuzz", "run", "--fuzz-dir"])
        .arg(&fuzz_dir)
        .arg("history")
        .arg(&corpus)
        .arg("--")
        .arg(format!("-runs={}", runs))
        // the campaign ends at `runs` executions per job or after this many seconds, whichever
        // comes first (executions per second fall from ~80 to ~6 per job as the corpus grows)
        .arg(format!("-max_total_time={}", std::env::var("JV_FUZZ_SECS").ok().and_then(|s| s.parse::<u64>().ok()).unwrap_or(600)))
        .arg(format!("-seed={}", (ctx.seed % 4_000_000_000).max(1)))
        .args(["-len_control=0", "-max_len=1024", "-print_final_stats=1", "-timeout=60", "-rss_limit_mb=4096"])
        .arg(format!("-jobs={}", jobs))
        .arg(format!("-workers={}", jobs))
        .arg(format!("-artifact_prefix={}/", artifacts.display()))
        .current_dir(&work)
        .env("CARGO_NET_OFFLINE", "true")
        .env("VERIF_ROOT", &root)
        .env("RUST_BACKTRACE", "0")
        .output();
    let o = match st {
        Ok(o) => o,
        Err(e) => {
            out.inconclusive.push(format!("coverage-guided tier unavailable: {}", e));
            return out;
        }
    };
    // executed units from the per-job logs
    let mut executed = 0u64;
    if let Ok(rd) = std::fs::read_dir(&work) {
        for e in rd.flatten() {
            let n = e.file_name().to_string_lossy().to_string();
            if n.starts_with("fuzz-") && n.ends_with(".log") {
                if let Ok(s) = std::fs::read_to_string(e.path()) {
                    for l in s.lines() {
                        if let Some(v) = l.strip_prefix("stat::number_of_executed_units:") {
                            executed += v.trim().parse::<u64>().unwrap_or(0);
                        }
                    }
                }
            }
        }
    }
    if executed == 0 {
        let tail: String = String::from_utf8_lossy(&o.stderr).lines().rev().take(6).collect::<Vec<_>>().join(" | ");
        out.inconclusive.push(format!("coverage-guided tier did not run (cargo fuzz exit {:?}): {}", o.status.code(), tail));
        return out;
    }
    out.class_n("libFuzzer executions", executed);
    out.evaluations += executed;
    // crash artifacts: confirm through the ordinary interpreter
    let path = ctx.db_path("fuzz-replay.db");
    if let Ok(rd) = std::fs::read_dir(&artifacts) {
        for e in rd.flatten() {
            let data = match std::fs::read(e.path()) {
                Ok(d) => d,
                Err(_) => continue,
            };
            let case = decode_history(&data);
            let (opts, kind) = opts_for_input(&data, path.clone());
            let mut failure = None;
            for _ in 0..4 {
                if let Err(f) = run_history(&case, &opts).result {
                    failure = Some(f);
                    break;
                }
            }
            match failure {
                Some(f) if f.kind != "harness_panic" => {
                    out.evaluations -= 1; // record_case counts it again
                    record_case(ctx, &mut out, known, kind, &case, CaseVerdict { failure: Some(f), nontrivial: false, classes: vec!["libFuzzer artifact confirmed".into()] });
                }
                _ => out.class("libFuzzer artifact that did not reproduce in the interpreter (timeout / OOM / flaky)"),
            }
        }
    }
    // classify the final corpus (the inputs libFuzzer kept for new coverage)
    let mut kept = 0u64;
    if let Ok(rd) = std::fs::read_dir(&corpus) {
        for e in rd.flatten() {
            let data = match std::fs::read(e.path()) {
                Ok(d) => d,
                Err(_) => continue,
            };
            kept += 1;
            if kept > 20_000 {
                break;
            }
            let case = decode_history(&data);
            let (opts, _) = opts_for_input(&data, path.clone());
            let o = run_history(&case, &opts);
            if o.result.is_ok() && crate::checks::c01::nontrivial(&o.stats) {
                out.nontrivial.insert(hash_json(&case));
                if out.samples.len() < 1 {
                    out.samples.push(serde_json::json!({"from": "libFuzzer corpus", "case": case}));
                }
            }
        }
    }
    out.class_n("libFuzzer corpus inputs kept", kept);
    let _ = std::fs::remove_dir_all(&work);
    out
}
