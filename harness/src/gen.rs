//! Targeted generators shared by several checks (C05 storms / mixed buckets, C06 rollbacks,
//! C07 single transactions over starting shapes, C08 bucket builders).

use crate::ops::*;
use crate::shapes::{shape_case, ShapeKind};
use proptest::prelude::*;

/// Bucket-deletion storms: a nested structure, then transactions dominated by bucket
/// deletions / re-creations at different nesting levels.
pub fn storm_history() -> impl Strategy<Value = HistoryCase> {
    let build = prop::collection::vec(
        prop_oneof![
            6 => (any::<u16>(), small_key(), 0u8..11).prop_map(|(b, k, kk)| Op::GetOrCreate { b, k: KeySel::Lit(k), kk }),
            4 => (any::<u16>(), 0u16..40, 1u8..30, prop::sample::select(vec![0u8, 8, 60]), prop::sample::select(vec![0u16, 50, 200, 600]))
                .prop_map(|(b, start, n, klen, vlen)| Op::PutRun { b, base: vec![], start, step: 1, n, klen, vlen }),
            1 => (any::<u16>(), new_key_sel(), val_sel(1024), 0u8..11, 0u8..11).prop_map(|(b, k, v, kk, vk)| Op::Put { b, k, v, kk, vk }),
        ],
        4..30,
    );
    let storm_op = || {
        prop_oneof![
            8 => (any::<u16>(), any::<u16>(), 0u8..11).prop_map(|(b, i, kk)| Op::DeleteBucket { b, k: KeySel::ExBucket(i), kk }),
            3 => (any::<u16>(), small_key(), 0u8..11).prop_map(|(b, k, kk)| Op::CreateBucket { b, k: KeySel::Lit(k), kk }),
            2 => (any::<u16>(), any::<u16>(), 0u8..11).prop_map(|(b, i, kk)| Op::GetOrCreate { b, k: KeySel::Ex(i), kk }),
            2 => (any::<u16>(), 0u16..40, 1u8..12, prop::sample::select(vec![0u16, 50, 300]))
                .prop_map(|(b, start, n, vlen)| Op::PutRun { b, base: vec![], start, step: 1, n, klen: 0, vlen }),
            1 => (any::<u16>(), any::<u16>(), 1u8..20).prop_map(|(b, start, n)| Op::DeleteRun { b, start, n }),
            1 => (any::<u16>(), 0u8..3).prop_map(|(b, extra)| Op::Scan { b, extra }),
        ]
    };
    (
        prop::bool::weighted(0.3),
        build,
        prop::collection::vec(
            (prop::collection::vec(storm_op(), 1..14), tx_kind(8, 1, 0, 1)),
            1..6,
        ),
        prop::bool::weighted(0.15),
    )
        .prop_map(|(fresh, build, storms, strict)| {
            let mut txs = vec![TxSpec {
                kind: TxKind::Commit,
                ops: {
                    let mut v = vec![
                        Op::GetOrCreate { b: 0, k: KeySel::Lit(b"a".to_vec()), kk: 2 },
                        Op::GetOrCreate { b: 0, k: KeySel::Lit(b"b".to_vec()), kk: 2 },
                    ];
                    v.extend(build);
                    v
                },
            }];
            for (ops, kind) in storms {
                txs.push(TxSpec {
                    kind,
                    ops: if kind == TxKind::Reopen { vec![] } else { ops },
                });
            }
            HistoryCase {
                cfg: Cfg { pagesize: 1024, num_pages: 32, strict, populate: false },
                fresh_handles: fresh,
                txs,
                dance: 0,
            }
        })
}

/// Mixed buckets: n entries alternating key/value pairs and sub-buckets, some sub-buckets
/// touched, then delete runs so that leaves merge right and parents merge left.
pub fn mixed_history() -> impl Strategy<Value = HistoryCase> {
    (
        12usize..120,
        prop::sample::select(vec![0u32, 40, 120, 250]),
        prop::sample::select(vec![0u8, 0, 30, 120]),
        prop::collection::vec(any::<u16>(), 0..12),
        prop::collection::vec(
            (
                prop::collection::vec(any::<u16>(), 0..8),
                prop::collection::vec((any::<u16>(), 1u8..40), 1..5),
                prop::collection::vec(op(1024, OpWeights::default()), 0..6),
            ),
            1..4,
        ),
    )
        .prop_map(|(n, vlen, klen, touch0, rounds)| {
            let key = |i: usize| run_key(b"", i as u32, klen as usize);
            let mut t1 = vec![Op::GetOrCreate { b: 0, k: KeySel::Lit(b"m".to_vec()), kk: 2 }];
            for i in 0..n {
                if i % 2 == 1 {
                    t1.push(Op::CreateBucket { b: ROOT_SEL, k: KeySel::Lit(key(i)), kk: (i % 11) as u8 });
                } else {
                    t1.push(Op::Put {
                        b: 0,
                        k: KeySel::Lit(key(i)),
                        v: ValSel::Fill { len: vlen, seed: i as u8 },
                        kk: (i % 11) as u8,
                        vk: ((i / 3) % 11) as u8,
                    });
                }
            }
            let mut txs = vec![TxSpec { kind: TxKind::Commit, ops: t1 }];
            let touch = |sel: &Vec<u16>| -> Vec<Op> {
                sel.iter()
                    .map(|b| Op::Put {
                        b: *b,
                        k: KeySel::Lit(b"t".to_vec()),
                        v: ValSel::Lit(vec![(*b % 251) as u8]),
                        kk: 2,
                        vk: 2,
                    })
                    .collect()
            };
            txs.push(TxSpec { kind: TxKind::Commit, ops: touch(&touch0) });
            for (t, runs, extra) in rounds {
                let mut ops = touch(&t);
                for (start, n) in runs {
                    ops.push(Op::DeleteRun { b: 0, start, n });
                }
                ops.extend(extra);
                txs.push(TxSpec { kind: TxKind::Commit, ops });
            }
            HistoryCase { cfg: Cfg::default(), fresh_handles: false, txs, dance: 0 }
        })
}

/// Rollback-heavy histories with read transactions that attempt mutators (C06).
pub fn rollback_history() -> impl Strategy<Value = HistoryCase> {
    let big = OpWeights { put: 8, get: 1, delete: 6, put_run: 8, delete_run: 6, bucket_get: 1, bucket_create: 5, bucket_delete: 5, read_misc: 1, seek_range: 1 };
    (
        cfg_small(),
        prop::bool::weighted(0.2),
        seed_tx(1024),
        prop::collection::vec(
            prop_oneof![
                4 => tx_spec(1024, OpWeights::default(), (1, 0, 0, 0), 30),
                5 => tx_spec(1024, big, (0, 1, 0, 0), 60),
                3 => tx_spec(1024, big, (0, 0, 1, 0), 25),
                1 => tx_spec(1024, big, (0, 0, 0, 1), 1),
            ],
            2..10,
        ),
    )
        .prop_map(|(cfg, fresh_handles, first, rest)| {
            let mut txs = vec![first];
            txs.extend(rest);
            HistoryCase { cfg, fresh_handles, txs, dance: 0 }
        })
}

#[derive(Clone, Debug)]
pub struct StartShape {
    pub kind: u8,
    pub k: usize,
}

/// Committed starting shapes (fresh, one-/two-/three-level, mixed) followed by one write
/// transaction of 1..max_ops generated operations (C07).
pub fn single_tx_history(max_ops: usize) -> impl Strategy<Value = HistoryCase> {
    let w = OpWeights { put: 10, get: 1, delete: 8, put_run: 4, delete_run: 8, bucket_get: 2, bucket_create: 4, bucket_delete: 3, read_misc: 1, seek_range: 1 };
    (
        0u8..6,
        4usize..40,
        prop::collection::vec(op(1024, w), 1..max_ops),
        prop::bool::weighted(0.15),
        prop::bool::weighted(0.8),
    )
        .prop_map(|(kind, k, ops, fresh_handles, commit)| {
            let mut txs = match kind {
                0 => vec![TxSpec {
                    kind: TxKind::Commit,
                    ops: vec![Op::GetOrCreate { b: 0, k: KeySel::Lit(b"s".to_vec()), kk: 2 }],
                }],
                1 => start_txs(ShapeKind::OneLevel, k.min(12)),
                2 => start_txs(ShapeKind::TwoLevel, k.min(24)),
                3 => start_txs(ShapeKind::ThreeLevel, k.min(30)),
                _ => start_txs(ShapeKind::Mixed, k.min(24)),
            };
            txs.push(TxSpec { kind: if commit { TxKind::Commit } else { TxKind::Rollback }, ops });
            HistoryCase { cfg: Cfg::default(), fresh_handles, txs, dance: 0 }
        })
}

/// The committed prefix of a shape case (everything before the modifying transaction).
pub fn start_txs(kind: ShapeKind, k: usize) -> Vec<TxSpec> {
    let c = shape_case(kind, k.min(30), 0, 0, 0, 0);
    let mut txs = c.txs;
    txs.pop();
    txs
}


/// A history whose free list (free + pending ids) sweeps slowly upwards through the capacity of
/// one free-list page (123 ids at page size 1024) and of two, and back down: 150-325 page-sized
/// values, then commits that delete 1-3 of them each, then commits that put them back. Every
/// count around a page boundary of the free list is visited by some commit.
pub fn freelist_boundary_history(seed: u64) -> HistoryCase {
    let mut rng = crate::runner::Rng(seed);
    let mut txs = vec![TxSpec {
        kind: TxKind::Commit,
        ops: vec![Op::GetOrCreate { b: 0, k: KeySel::Lit(b"v".to_vec()), kk: 2 }],
    }];
    // enough values for the free list to reach the end of a two-page run (251 ids) in half of the histories
    let total: u16 = if seed % 4 >= 2 { 285 + (seed % 40) as u16 } else { 150 + (seed % 60) as u16 };
    let mut fill = Vec::new();
    let mut at = 0u16;
    while at < total {
        let n = (total - at).min(40) as u8;
        fill.push(Op::PutRun { b: 0, base: vec![b'p'], start: at, step: 1, n, klen: 0, vlen: 900 });
        at += n as u16;
    }
    txs.push(TxSpec { kind: TxKind::Commit, ops: fill });
    // downwards: delete a few per commit (always the first remaining ones)
    let mut left = total;
    let mut deleted = 0u16;
    while left > 8 {
        let k = 1 + rng.below(3) as u8;
        txs.push(TxSpec { kind: TxKind::Commit, ops: vec![Op::DeleteRun { b: 0, start: 0, n: k }] });
        left = left.saturating_sub(k as u16);
        deleted += k as u16;
        // odd seeds: close and reopen after every commit, so that every free-list length of the
        // sweep is also loaded from the file once and followed by a commit
        if seed % 2 == 1 || rng.chance(1, 40) {
            txs.push(TxSpec { kind: TxKind::Reopen, ops: vec![] });
        }
    }
    // upwards again: put them back a few per commit (the free list shrinks through the same counts)
    let mut back = 0u16;
    while back < deleted {
        let k = 1 + rng.below(3) as u8;
        txs.push(TxSpec { kind: TxKind::Commit, ops: vec![Op::PutRun { b: 0, base: vec![b'p'], start: back, step: 1, n: k, klen: 0, vlen: 900 }] });
        back += k as u16;
        if seed % 2 == 1 || rng.chance(1, 40) {
            txs.push(TxSpec { kind: TxKind::Reopen, ops: vec![] });
        }
    }
    HistoryCase { cfg: Cfg { pagesize: 1024, num_pages: 32, strict: seed % 3 == 0, populate: false }, fresh_handles: false, txs, dance: 0 }
}


/// A parent bucket with `n` sibling sub-buckets (hundreds to a few thousand) plus a bucket two
/// levels down; one transaction writes to the deep bucket and lists / opens all the siblings, in
/// either order, with bucket handles re-acquired for every operation; then more of the same after
/// commit. Anything keyed on "how many buckets a transaction has opened" is reached only here.
pub fn wide_parent_history(n: u16, variant: u8) -> HistoryCase {
    let lit = |s: &str| KeySel::Lit(s.as_bytes().to_vec());
    let mut t0 = vec![
        Op::CreateBucket { b: 0, k: lit("p"), kk: 2 },
        Op::CreateBucket { b: ROOT_SEL, k: lit("x"), kk: 2 },
        // paths: /p, /p/x -> /p/x is the last non-root path
        Op::CreateBucket { b: 0xFFFF, k: lit("y"), kk: 2 },
        Op::Put { b: 0xFFFF, k: lit("k0"), v: ValSel::Lit(b"v0".to_vec()), kk: 2, vk: 2 },
    ];
    for i in 0..n {
        t0.push(Op::CreateBucket { b: ROOT_SEL, k: KeySel::Lit(format!("c{:05}", i).into_bytes()), kk: 2 });
    }
    // /p/x/y sorts behind every /p/cNNNNN and behind /p/x: selector 0xFFFF addresses it in key operations
    let write = |tag: &str| Op::Put { b: 0xFFFF, k: lit(tag), v: ValSel::Fill { len: 40, seed: tag.len() as u8 }, kk: 2, vk: 2 };
    let list = Op::Buckets { b: ROOT_SEL };
    let read = |tag: &str| Op::Get { b: 0xFFFF, k: lit(tag) };
    let t1 = match variant % 3 {
        0 => vec![write("k1"), list.clone(), read("k1"), Op::NextInt { b: 0xFFFF }],
        1 => vec![list.clone(), write("k1"), read("k1"), list.clone()],
        _ => vec![write("k1"), Op::Delete { b: 0xFFFF, k: lit("k0") }, list.clone(), read("k0"), read("k1")],
    };
    let t2 = vec![list.clone(), write("k2"), list, read("k2")];
    HistoryCase {
        cfg: Cfg { pagesize: if variant % 2 == 0 { 1024 } else { 4096 }, num_pages: 32, strict: false, populate: false },
        fresh_handles: true,
        txs: vec![
            TxSpec { kind: TxKind::Commit, ops: t0 },
            TxSpec { kind: TxKind::Commit, ops: t1 },
            TxSpec { kind: TxKind::Reopen, ops: vec![] },
            TxSpec { kind: TxKind::Commit, ops: t2 },
        ],
        dance: 0,
    }
}


/// A bucket of `n` page-sized values is filled in one commit and deleted in the next, every writer
/// beginning under a short-lived reader: nothing is allocatable in the deleting commit, so the
/// new free-list run is taken from the end of the file and holds exactly the ids the deletion
/// produced. Then close, reopen, two small commits. With `n` swept, the persisted free list
/// passes through the exact capacity of a one-page (123 ids) and a two-page (251 ids) run.
pub fn exactfit_freelist_history(n: u16) -> HistoryCase {
    let mut fill = vec![Op::GetOrCreate { b: 0, k: KeySel::Lit(b"v".to_vec()), kk: 2 }];
    let mut at = 0u16;
    while at < n {
        let m = (n - at).min(250) as u8;
        fill.push(Op::PutRun { b: 0, base: vec![b'p'], start: at, step: 1, n: m, klen: 0, vlen: 900 });
        at += m as u16;
    }
    let small = |i: u16| TxSpec { kind: TxKind::Commit, ops: vec![Op::GetOrCreate { b: 0, k: KeySel::Lit(format!("w{}", i).into_bytes()), kk: 2 }] };
    let txs = vec![
        TxSpec { kind: TxKind::Commit, ops: fill },
        TxSpec { kind: TxKind::Commit, ops: vec![Op::DeleteBucket { b: 0, k: KeySel::Lit(b"v".to_vec()), kk: 2 }] },
        TxSpec { kind: TxKind::Reopen, ops: vec![] },
        small(0),
        small(1),
        TxSpec { kind: TxKind::Reopen, ops: vec![] },
        small(2),
    ];
    HistoryCase { cfg: Cfg { pagesize: 1024, num_pages: 32, strict: false, populate: false }, fresh_handles: false, txs, dance: 1 }
}
