//! Golden files for C15: generated once from the pinned tree (see golden/README.md).

use crate::fsck;
use crate::interp::{run_history, RunOpts};
use crate::model::MBucket;
use crate::ops::*;
use std::path::Path;

pub const GOLDEN: [(u64, usize); 4] = [(1024, 256), (4096, 96), (5000, 80), (16384, 64)];

fn lit(s: &str) -> KeySel {
    KeySel::Lit(s.as_bytes().to_vec())
}

/// Deterministic history: nested buckets three deep, multi-page values, deletions (non-empty free list).
pub fn golden_history(ps: u64, num_pages: usize) -> HistoryCase {
    let p = ps as u32;
    // selectors: non-root paths sorted: alpha, alpha/nested1, alpha/nested1/deep, beta, gamma (then delta)
    let t1 = vec![
        Op::CreateBucket { b: 0, k: lit("alpha"), kk: 1 },
        Op::CreateBucket { b: 0, k: lit("beta"), kk: 1 },
        Op::CreateBucket { b: 0, k: lit("gamma"), kk: 1 },
        Op::PutRun { b: sel_for(0, 3), base: b"a".to_vec(), start: 0, step: 1, n: 60, klen: 12, vlen: (p / 8) as u16 },
        Op::CreateBucket { b: sel_nonroot_for(0, 3), k: lit("nested1"), kk: 1 },
        Op::PutRun { b: sel_for(1, 4), base: b"n".to_vec(), start: 0, step: 1, n: 30, klen: 0, vlen: 40 },
        Op::CreateBucket { b: sel_nonroot_for(1, 4), k: lit("deep"), kk: 1 },
        Op::PutRun { b: sel_for(2, 5), base: b"d".to_vec(), start: 0, step: 1, n: 10, klen: 0, vlen: 16 },
        Op::Put { b: sel_for(2, 5), k: lit("big"), v: ValSel::Fill { len: 3 * p + 17, seed: 7 }, kk: 1, vk: 2 },
        Op::Put { b: sel_for(3, 5), k: lit("v1"), v: ValSel::Fill { len: 2 * p + p / 2, seed: 1 }, kk: 1, vk: 2 },
        Op::Put { b: sel_for(3, 5), k: lit("v2"), v: ValSel::Fill { len: 4 * p, seed: 2 }, kk: 1, vk: 2 },
        Op::Put { b: sel_for(3, 5), k: lit("v3"), v: ValSel::Fill { len: p - 100, seed: 3 }, kk: 1, vk: 2 },
        Op::Put { b: sel_for(3, 5), k: lit(""), v: ValSel::Lit(b"empty key".to_vec()), kk: 1, vk: 2 },
    ];
    let t2 = vec![
        Op::DeleteRun { b: sel_for(0, 5), start: sel_for(10, 61), n: 20 },
        Op::Delete { b: sel_for(3, 5), k: lit("v2") },
        Op::CreateBucket { b: 0, k: lit("delta"), kk: 1 },
        // paths now: alpha, alpha/nested1, alpha/nested1/deep, beta, delta, gamma
        Op::PutRun { b: sel_for(4, 6), base: b"x".to_vec(), start: 0, step: 2, n: 40, klen: 20, vlen: 90 },
    ];
    let t3 = vec![
        Op::PutRun { b: sel_for(0, 6), base: b"a".to_vec(), start: 40, step: 1, n: 10, klen: 12, vlen: 33 },
        Op::DeleteBucket { b: sel_nonroot_for(1, 6), k: lit("deep"), kk: 1 },
        // paths now: alpha, alpha/nested1, beta, delta, gamma
        Op::Put { b: sel_for(1, 5), k: lit("after"), v: ValSel::Fill { len: p + 1, seed: 9 }, kk: 1, vk: 2 },
        Op::CreateBucket { b: sel_nonroot_for(1, 5), k: lit("deep2"), kk: 1 },
        Op::PutRun { b: sel_for(2, 6), base: b"e".to_vec(), start: 0, step: 1, n: 5, klen: 0, vlen: 10 },
    ];
    HistoryCase {
        cfg: Cfg { pagesize: ps, num_pages, strict: false, populate: false },
        fresh_handles: false,
        txs: vec![
            TxSpec { kind: TxKind::Commit, ops: t1 },
            TxSpec { kind: TxKind::Commit, ops: t2 },
            TxSpec { kind: TxKind::Commit, ops: t3 },
        ],
        dance: 0,
    }
}

/// Golden files that a commit of the pinned code had to grow: created with the default 32 pages,
/// same history, so the file is 32 pages + k * 8 MiB long (not a whole number of pages at page
/// size 5000). Stored without the trailing zero bytes; `psNg.len` records the real length.
pub fn generate_grown(outdir: &Path) -> Result<(), String> {
    std::fs::create_dir_all(outdir).map_err(|e| e.to_string())?;
    for (ps, _) in GOLDEN {
        let h = golden_history(ps, 32);
        let path = outdir.join(format!("ps{}g.db", ps));
        let mut opts = RunOpts::standard(path.clone());
        opts.keep_file = true;
        let o = run_history(&h, &opts);
        if let Err(f) = o.result {
            return Err(format!("golden history for page size {} failed on this tree: {}", ps, f.line()));
        }
        let mut bytes = std::fs::read(&path).map_err(|e| e.to_string())?;
        let full = bytes.len() as u64;
        if full <= ps * 32 {
            return Err(format!("page size {}: file did not grow ({} bytes)", ps, full));
        }
        let rep = fsck::fsck(&bytes, ps);
        if !rep.ok() || rep.stats.free_entries == 0 || rep.stats.overflow_pages == 0 {
            return Err(format!("page size {}: golden file lacks required features: {:?}", ps, rep.errors));
        }
        while bytes.last() == Some(&0) {
            bytes.pop();
        }
        std::fs::write(&path, &bytes).map_err(|e| e.to_string())?;
        std::fs::write(outdir.join(format!("ps{}g.len", ps)), format!("{}\n", full)).map_err(|e| e.to_string())?;
        std::fs::write(outdir.join(format!("ps{}g.dump.json", ps)), serde_json::to_string(&o.model.to_value()).unwrap()).map_err(|e| e.to_string())?;
        println!("ps{}g: {} bytes ({} stored), high-water {} pages, {} free entries, {} overflow pages", ps, full, bytes.len(), rep.stats.num_pages, rep.stats.free_entries, rep.stats.overflow_pages);
    }
    Ok(())
}

/// File name stem of a golden file.
pub fn stem(ps: u64, grown: bool) -> String {
    format!("ps{}{}", ps, if grown { "g" } else { "" })
}

/// The golden file's bytes exactly as the pinned code left them (trailing zeros restored).
pub fn load_bytes(dir: &Path, ps: u64, grown: bool) -> Result<Vec<u8>, String> {
    let mut bytes = std::fs::read(dir.join(format!("{}.db", stem(ps, grown)))).map_err(|e| e.to_string())?;
    if grown {
        let l: usize = std::fs::read_to_string(dir.join(format!("{}.len", stem(ps, true)))).map_err(|e| e.to_string())?.trim().parse().map_err(|_| "bad .len file".to_string())?;
        if l < bytes.len() {
            return Err("bad .len file".into());
        }
        bytes.resize(l, 0);
    }
    Ok(bytes)
}

pub fn generate(outdir: &Path) -> Result<(), String> {
    std::fs::create_dir_all(outdir).map_err(|e| e.to_string())?;
    for (ps, np) in GOLDEN {
        let h = golden_history(ps, np);
        let path = outdir.join(format!("ps{}.db", ps));
        let mut opts = RunOpts::standard(path.clone());
        opts.keep_file = true;
        let o = run_history(&h, &opts);
        if let Err(f) = o.result {
            return Err(format!("golden history for page size {} failed on this tree: {}", ps, f.line()));
        }
        let bytes = std::fs::read(&path).map_err(|e| e.to_string())?;
        if bytes.len() as u64 != ps * np as u64 {
            return Err(format!("page size {}: file grew to {} bytes", ps, bytes.len()));
        }
        let rep = fsck::fsck(&bytes, ps);
        if !rep.ok() || rep.stats.free_entries == 0 || rep.stats.overflow_pages == 0 {
            return Err(format!("page size {}: golden file lacks required features: {:?} free={} overflow={}", ps, rep.errors, rep.stats.free_entries, rep.stats.overflow_pages));
        }
        std::fs::write(outdir.join(format!("ps{}.dump.json", ps)), serde_json::to_string(&o.model.to_value()).unwrap()).map_err(|e| e.to_string())?;
        println!("ps{}: {} bytes, high-water {} pages, {} free entries, {} overflow pages, {} entries, height {}", ps, bytes.len(), rep.stats.num_pages, rep.stats.free_entries, rep.stats.overflow_pages, o.model.count_entries(), rep.stats.max_height);
    }
    Ok(())
}

/// Rewrites both header records of an image with the legacy (<= 0.10) SHA3-256 checksum.
pub fn to_legacy(bytes: &mut [u8], ps: u64) -> Result<(), String> {
    for slot in 0..2u8 {
        let (n, _) = fsck::parse_meta(bytes, ps, slot);
        let mut m = n.ok_or_else(|| format!("header {} not valid", slot))?;
        m.legacy = true;
        let base = slot as usize * ps as usize;
        let page = &mut bytes[base..base + ps as usize];
        for b in &mut page[96..128] {
            *b = 0;
        }
        fsck::write_meta_record(page, &m);
    }
    Ok(())
}

pub fn load_dump(dir: &Path, ps: u64, _grown: bool) -> Result<MBucket, String> {
    // the grown files hold the same history, hence the same logical content (compared byte for
    // byte when they were generated), so one dump per page size is kept
    let s = std::fs::read_to_string(dir.join(format!("{}.dump.json", stem(ps, false)))).map_err(|e| e.to_string())?;
    let v: serde_json::Value = serde_json::from_str(&s).map_err(|e| e.to_string())?;
    MBucket::from_value(&v).ok_or_else(|| "bad dump file".to_string())
}
