//! E1 interpreter: runs a `HistoryCase` against jammdb and the reference model,
//! with the oracles selected by `RunOpts`.

use crate::fsck;
use crate::model::{diff, hex, path_str, MBucket, MErr, MNode, Path};
use crate::ops::*;
use crate::panics::{catch, PanicRec};
use bumpalo::Bump;
use jammdb::{Bucket, Data, Error, OpenOptions, Tx, DB};
use serde::{Deserialize, Serialize};
use std::collections::{BTreeMap, HashMap};
use std::ops::Bound;
use std::path::{Path as FsPath, PathBuf};

#[derive(Clone, Debug, Serialize, Deserialize)]
pub struct Failure {
    pub kind: String,
    pub msg: String,
    /// for panics: innermost jammdb frame / location
    pub site: String,
    pub tx: usize,
    pub op: Option<usize>,
}

impl Failure {
    pub fn new(kind: &str, msg: String) -> Failure {
        Failure {
            kind: kind.into(),
            msg,
            site: String::new(),
            tx: 0,
            op: None,
        }
    }
    pub fn from_panic(p: PanicRec) -> Failure {
        // a panic raised by harness code itself is a harness error, never a finding
        // (cargo passes crate-relative paths for the harness crate itself, absolute ones for the jammdb path dependency)
        let harness = p.frame.is_empty() && p.location.starts_with("src/");
        Failure {
            kind: if harness { "harness_panic".into() } else { "panic".into() },
            msg: format!("{} @ {}", p.msg, p.location),
            site: p.frame,
            tx: 0,
            op: None,
        }
    }
    pub fn at(mut self, tx: usize, op: Option<usize>) -> Failure {
        self.tx = tx;
        self.op = op;
        self
    }
    pub fn line(&self) -> String {
        format!(
            "[{}] tx {} op {:?}: {} {}",
            self.kind, self.tx, self.op, self.msg, self.site
        )
    }
}

#[derive(Clone, Debug)]
pub struct RunOpts {
    /// after every op in a write tx, compare the whole read API of the touched bucket and its ancestors (C07)
    pub full_check_every_op: bool,
    /// after every op in a write tx, dump the whole tx and compare (expensive; small cases)
    pub dump_every_op: bool,
    pub fsck_after_commit: bool,
    pub dbcheck_after_commit: bool,
    pub dump_after_commit: bool,
    /// file bytes must be unchanged by rollbacks, read txs, open/close (C06)
    pub bytes_unchanged: bool,
    /// after a call that returned an error, dump the whole transaction and compare (C06)
    pub dump_after_error: bool,
    /// record the model and both header pages after every commit
    pub snap_headers: bool,
    /// emit shim markers (BEGIN / OK / ERR) around every commit
    pub markers: bool,
    pub final_reopen: bool,
    /// scratch file path
    pub path: PathBuf,
    /// keep the file at the end (caller inspects it)
    pub keep_file: bool,
    /// open the file that is already at `path` instead of creating a new one; start from this model
    pub start_model: Option<MBucket>,
    /// every write transaction is accompanied by a short-lived reader: 1 = opened before the
    /// writer begins and closed after its operations, just before commit; 2 = opened before the
    /// writer begins and closed right after it began
    pub reader_dance: u8,
    /// Some(i): at the Reopen with transaction index i, while the database is closed, both
    /// header records are re-encoded in the legacy (<= 0.10, SHA3) format by the harness
    /// (between the markers HBEGIN / HEND when markers are on)
    pub legacy_at: Option<usize>,
}

impl RunOpts {
    pub fn standard(path: PathBuf) -> RunOpts {
        RunOpts {
            full_check_every_op: false,
            dump_every_op: false,
            fsck_after_commit: true,
            dbcheck_after_commit: true,
            dump_after_commit: true,
            bytes_unchanged: false,
            dump_after_error: false,
            snap_headers: false,
            markers: false,
            final_reopen: true,
            path,
            keep_file: false,
            start_model: None,
            reader_dance: 0,
            legacy_at: None,
        }
    }
}

#[derive(Clone, Debug, Default, Serialize, Deserialize)]
pub struct CaseStats {
    /// iterators obtained before an operation and consumed after it
    pub early_iters: u64,
    /// a short-lived reader accompanied every write transaction
    pub reader_dance: bool,
    pub ops: u64,
    pub skipped_ops: u64,
    pub mut_commits: u64,
    pub commits: u64,
    pub rollbacks: u64,
    pub big_rollbacks: u64,
    pub read_txs: u64,
    pub ro_mutator_attempts: u64,
    /// bit set of mutator kinds attempted on read-only transactions in one of them (max over read txs)
    pub ro_mutator_kinds: u32,
    pub dumps_after_error: u64,
    pub reopens: u64,
    pub reopen_mid: bool,
    pub rollback_then_commit: bool,
    pub err_returns: u64,
    pub max_height: u32,
    pub height_decreased: bool,
    pub pages_decreased: bool,
    pub overflow: bool,
    pub nested_bucket_delete: bool,
    pub bucket_deletes: u64,
    pub growth: bool,
    pub split: bool,
    pub empty_key: bool,
    pub huge_key: bool,
    pub in_tx_scans: u64,
    /// bucket handles adopted from range(..).to_buckets() / cursor().to_buckets()
    pub iter_handles: u64,
    pub multi_leaf_tx_with_delete_and_insert: bool,
    pub max_pages: u64,
    pub final_entries: u64,
    pub seeks: u64,
    pub ranges: u64,
    pub fsck_runs: u64,
}

/// Marker for the I/O shim (a write to an invalid descriptor; harmless without the shim).
pub fn mark(text: &str) {
    unsafe {
        libc::write(-4242, text.as_ptr() as *const libc::c_void, text.len());
    }
}

pub fn open_db(cfg: &Cfg, path: &FsPath) -> Result<DB, Failure> {
    let r = catch(|| {
        OpenOptions::new()
            .pagesize(cfg.pagesize)
            .num_pages(cfg.num_pages)
            .strict_mode(cfg.strict)
            .mmap_populate(cfg.populate)
            .open(path)
    });
    match r {
        Err(p) => Err(Failure::from_panic(p)),
        Ok(Err(e)) => Err(Failure::new("open_err", format!("open failed: {}", e))),
        Ok(Ok(db)) => Ok(db),
    }
}

pub fn map_err(e: &Error) -> Result<MErr, String> {
    match e {
        Error::BucketExists => Ok(MErr::BucketExists),
        Error::BucketMissing => Ok(MErr::BucketMissing),
        Error::KeyValueMissing => Ok(MErr::KeyValueMissing),
        Error::IncompatibleValue => Ok(MErr::IncompatibleValue),
        Error::ReadOnlyTx => Ok(MErr::ReadOnlyTx),
        other => Err(format!("{}", other)),
    }
}

pub fn file_hash(path: &FsPath) -> Result<(u64, u64), String> {
    let b = std::fs::read(path).map_err(|e| e.to_string())?;
    let mut h: u64 = 0xcbf29ce484222325;
    for c in b.chunks(8) {
        let mut w = [0u8; 8];
        w[..c.len()].copy_from_slice(c);
        h ^= u64::from_le_bytes(w);
        h = h.wrapping_mul(0x100000001b3);
        h ^= h >> 29;
    }
    Ok((h, b.len() as u64))
}

// ------------------------------------------------------------------ dumps

pub fn dump_bucket<'b, 'tx>(b: &Bucket<'b, 'tx>, depth: usize) -> Result<MBucket, String> {
    if depth > 40 {
        return Err("bucket nesting deeper than 40".into());
    }
    let mut out = MBucket {
        next_int: b.next_int(),
        entries: BTreeMap::new(),
    };
    let mut last: Option<Vec<u8>> = None;
    let mut n = 0usize;
    for data in b.cursor() {
        n += 1;
        if n > 5_000_000 {
            return Err("cursor yielded more than 5M entries".into());
        }
        let key = data.key().to_vec();
        if let Some(l) = &last {
            if *l >= key {
                return Err(format!(
                    "cursor order: {} yielded after {}",
                    hex(&key),
                    hex(l)
                ));
            }
        }
        last = Some(key.clone());
        match &data {
            Data::KeyValue(kv) => {
                out.entries.insert(key, MNode::Val(kv.value().to_vec()));
            }
            Data::Bucket(name) => {
                let sub = b
                    .get_bucket(name)
                    .map_err(|e| format!("get_bucket({}) on listed bucket failed: {}", hex(&key), e))?;
                let d = dump_bucket(&sub, depth + 1)?;
                out.entries.insert(key, MNode::Bucket(d));
            }
        }
    }
    Ok(out)
}

pub fn dump_tx<'tx>(tx: &Tx<'tx>) -> Result<MBucket, String> {
    let mut out = MBucket::default();
    let mut last: Option<Vec<u8>> = None;
    for (name, b) in tx.buckets() {
        let key = name.name().to_vec();
        if let Some(l) = &last {
            if *l >= key {
                return Err(format!(
                    "root bucket order: {} yielded after {}",
                    hex(&key),
                    hex(l)
                ));
            }
        }
        last = Some(key.clone());
        let d = dump_bucket(&b, 1)?;
        out.entries.insert(key, MNode::Bucket(d));
    }
    Ok(out)
}

/// Dump through a fresh read-only transaction; panics are caught.
pub fn dump_db(db: &DB) -> Result<MBucket, Failure> {
    match catch(|| -> Result<MBucket, String> {
        let tx = db.tx(false).map_err(|e| format!("tx(false) failed: {}", e))?;
        dump_tx(&tx)
    }) {
        Err(p) => Err(Failure::from_panic(p)),
        Ok(Err(s)) => Err(Failure::new("dump", s)),
        Ok(Ok(d)) => Ok(d),
    }
}

pub fn compare_dump(expected: &MBucket, got: &MBucket, what: &str) -> Result<(), Failure> {
    match diff(expected, got, &mut vec![], false) {
        None => Ok(()),
        Some(d) => Err(Failure::new("dump", format!("{}: {}", what, d))),
    }
}

// ------------------------------------------------------------------ argument kinds

macro_rules! with_arg {
    ($kind:expr, $bytes:expr, $arena:expr, |$x:ident| $body:expr) => {{
        let __b: &[u8] = $bytes;
        match $kind % 11 {
            0 | 7 => {
                let $x: &[u8] = $arena.alloc_slice_copy(__b);
                $body
            }
            1 => match std::str::from_utf8(__b) {
                Ok(s) => {
                    let $x: &str = $arena.alloc_str(s);
                    $body
                }
                Err(_) => {
                    let $x: &[u8] = $arena.alloc_slice_copy(__b);
                    $body
                }
            },
            3 => match String::from_utf8(__b.to_vec()) {
                Ok(s) => {
                    let $x: String = s;
                    $body
                }
                Err(e) => {
                    let $x: Vec<u8> = e.into_bytes();
                    $body
                }
            },
            4 => {
                let $x = bytes::Bytes::copy_from_slice(__b);
                $body
            }
            5 => {
                let __t = bytes::Bytes::copy_from_slice(__b);
                let $x = &__t;
                $body
            }
            6 => match __b.len() {
                0 => {
                    let $x: [u8; 0] = [];
                    $body
                }
                1 => {
                    let mut a = [0u8; 1];
                    a.copy_from_slice(__b);
                    let $x = a;
                    $body
                }
                3 => {
                    let mut a = [0u8; 3];
                    a.copy_from_slice(__b);
                    let $x = a;
                    $body
                }
                8 => {
                    let mut a = [0u8; 8];
                    a.copy_from_slice(__b);
                    let $x = a;
                    $body
                }
                _ => {
                    let $x: Vec<u8> = __b.to_vec();
                    $body
                }
            },
            _ => {
                let $x: Vec<u8> = __b.to_vec();
                $body
            }
        }
    }};
}

// ------------------------------------------------------------------ per-tx context

pub struct TxCtx<'b, 'tx, 'r> {
    pub tx: &'b Tx<'tx>,
    pub arena: &'tx Bump,
    pub handles: HashMap<Path, Bucket<'b, 'tx>>,
    pub fresh_handles: bool,
    pub writable: bool,
    pub stats: &'r mut CaseStats,
    pub touched: Vec<Path>,
    pub tx_deleted: bool,
    pub tx_inserted: bool,
    pub ro_kinds: u32,
}

fn resolve_key(m: &MBucket, k: &KeySel) -> Vec<u8> {
    let nth = |i: u16, f: &dyn Fn(&MNode) -> bool| -> Option<Vec<u8>> {
        let ks: Vec<&Vec<u8>> = m
            .entries
            .iter()
            .filter(|(_, n)| f(n))
            .map(|(k, _)| k)
            .collect();
        if ks.is_empty() {
            None
        } else {
            Some(ks[idx(i, ks.len())].clone())
        }
    };
    match k {
        KeySel::Ex(i) => nth(*i, &|_| true).unwrap_or_else(|| b"a".to_vec()),
        KeySel::ExKv(i) => nth(*i, &|n| matches!(n, MNode::Val(_))).unwrap_or_else(|| b"b".to_vec()),
        KeySel::ExBucket(i) => {
            nth(*i, &|n| matches!(n, MNode::Bucket(_))).unwrap_or_else(|| b"c".to_vec())
        }
        KeySel::Near(i, t) => {
            let mut k = nth(*i, &|_| true).unwrap_or_else(|| b"m".to_vec());
            match t % 4 {
                0 => k.push(0),
                1 => {
                    k.pop();
                }
                2 => {
                    if let Some(l) = k.last_mut() {
                        *l = l.wrapping_add(1);
                    }
                }
                _ => {
                    if let Some(l) = k.last_mut() {
                        *l = l.wrapping_sub(1);
                    }
                }
            }
            k
        }
        KeySel::Lit(v) => v.clone(),
        KeySel::Empty => vec![],
        KeySel::Huge { len, seed } => fill_bytes(1100 + *len as usize, *seed),
    }
}

fn resolve_val(v: &ValSel, key_len: usize) -> Vec<u8> {
    match v {
        ValSel::Lit(v) => v.clone(),
        ValSel::Fill { len, seed } => fill_bytes(*len as usize, *seed),
        ValSel::Fit { total, seed } => fill_bytes((*total as usize).saturating_sub(key_len), *seed),
    }
}

fn select_path(work: &MBucket, b: u16, allow_root: bool) -> Option<Path> {
    let mut paths = Vec::new();
    work.all_paths(&vec![], &mut paths);
    let root = paths.remove(0);
    if allow_root {
        // selectors below ROOT_SEL address the root (Tx-level API), the rest the buckets
        if b < ROOT_SEL || paths.is_empty() {
            return Some(root);
        }
        let i = ((b - ROOT_SEL) as usize * paths.len()) / (0x10000 - ROOT_SEL as usize);
        return Some(paths.swap_remove(i));
    }
    if paths.is_empty() {
        None
    } else {
        let i = idx(b, paths.len());
        Some(paths.swap_remove(i))
    }
}

impl<'b, 'tx, 'r> TxCtx<'b, 'tx, 'r> {
    /// Ensure a handle for `path` (non-root) is cached; returns error string on failure.
    fn ensure(&mut self, path: &Path) -> Result<(), Failure> {
        debug_assert!(!path.is_empty());
        if self.handles.contains_key(path) {
            return Ok(());
        }
        // find nearest cached ancestor
        let mut start = 0;
        for l in (1..path.len()).rev() {
            if self.handles.contains_key(&path[..l].to_vec()) {
                start = l;
                break;
            }
        }
        for l in start..path.len() {
            let name = path[l].clone();
            let nb = if l == 0 {
                self.tx.get_bucket(name)
            } else {
                self.handles
                    .get(&path[..l].to_vec())
                    .unwrap()
                    .get_bucket(name)
            };
            match nb {
                Ok(nb) => {
                    self.handles.insert(path[..=l].to_vec(), nb);
                }
                Err(e) => {
                    return Err(Failure::new(
                        "ret",
                        format!(
                            "get_bucket for existing bucket {} failed: {}",
                            path_str(&path[..=l]),
                            e
                        ),
                    ))
                }
            }
        }
        Ok(())
    }

    fn drop_prefix(&mut self, prefix: &Path) {
        self.handles
            .retain(|p, _| !(p.len() >= prefix.len() && p[..prefix.len()] == prefix[..]));
    }

    fn touch(&mut self, p: &Path) {
        if !self.touched.contains(p) {
            self.touched.push(p.clone());
        }
    }
}

fn cmp_err<T>(what: &str, got: &Result<T, Error>, expected: &Result<(), MErr>) -> Result<(), Failure> {
    match (got, expected) {
        (Ok(_), Ok(())) => Ok(()),
        (Err(e), Err(me)) => match map_err(e) {
            Ok(ge) if ge == *me => Ok(()),
            Ok(ge) => Err(Failure::new(
                "ret",
                format!("{}: expected Err({:?}) got Err({:?})", what, me, ge),
            )),
            Err(s) => Err(Failure::new(
                "ret",
                format!("{}: expected Err({:?}) got Err({})", what, me, s),
            )),
        },
        (Ok(_), Err(me)) => Err(Failure::new(
            "ret",
            format!("{}: expected Err({:?}) got Ok", what, me),
        )),
        (Err(e), Ok(())) => Err(Failure::new(
            "ret",
            format!("{}: expected Ok got Err({})", what, e),
        )),
    }
}

fn data_matches(d: &Option<Data>, m: Option<&MNode>, key: &[u8], what: &str) -> Result<(), Failure> {
    match (d, m) {
        (None, None) => Ok(()),
        (Some(Data::KeyValue(kv)), Some(MNode::Val(v))) => {
            if kv.key() == key && kv.value() == v.as_slice() {
                Ok(())
            } else {
                Err(Failure::new(
                    "ret",
                    format!(
                        "{}: expected ({}, {}) got ({}, {})",
                        what,
                        hex(key),
                        hex(v),
                        hex(kv.key()),
                        hex(kv.value())
                    ),
                ))
            }
        }
        (Some(Data::Bucket(n)), Some(MNode::Bucket(_))) => {
            if n.name() == key {
                Ok(())
            } else {
                Err(Failure::new(
                    "ret",
                    format!("{}: bucket name expected {} got {}", what, hex(key), hex(n.name())),
                ))
            }
        }
        (got, exp) => Err(Failure::new(
            "ret",
            format!(
                "{}: key {} expected {} got {}",
                what,
                hex(key),
                match exp {
                    None => "absent",
                    Some(MNode::Val(_)) => "a value",
                    Some(MNode::Bucket(_)) => "a bucket",
                },
                match got {
                    None => "None",
                    Some(Data::KeyValue(_)) => "a value",
                    Some(Data::Bucket(_)) => "a bucket",
                }
            ),
        )),
    }
}

/// Entries as the cursor should yield them.
#[derive(Clone, Debug, PartialEq, Eq)]
pub enum Ent {
    Kv(Vec<u8>, Vec<u8>),
    B(Vec<u8>),
}
impl Ent {
    pub fn key(&self) -> &[u8] {
        match self {
            Ent::Kv(k, _) => k,
            Ent::B(k) => k,
        }
    }
    pub fn of(d: &Data) -> Ent {
        match d {
            Data::KeyValue(kv) => Ent::Kv(kv.key().to_vec(), kv.value().to_vec()),
            Data::Bucket(n) => Ent::B(n.name().to_vec()),
        }
    }
    pub fn short(&self) -> String {
        match self {
            Ent::Kv(k, v) => format!("{}={}", hex(k), hex(v)),
            Ent::B(k) => format!("{}/", hex(k)),
        }
    }
}

pub fn model_entries(m: &MBucket) -> Vec<Ent> {
    m.entries
        .iter()
        .map(|(k, n)| match n {
            MNode::Val(v) => Ent::Kv(k.clone(), v.clone()),
            MNode::Bucket(_) => Ent::B(k.clone()),
        })
        .collect()
}

fn seq_diff(expected: &[Ent], got: &[Ent]) -> Option<String> {
    if expected == got {
        return None;
    }
    let n = expected.len().min(got.len());
    for i in 0..n {
        if expected[i] != got[i] {
            return Some(format!(
                "position {}: expected {} got {} (expected {} entries, got {})",
                i,
                expected[i].short(),
                got[i].short(),
                expected.len(),
                got.len()
            ));
        }
    }
    if expected.len() > got.len() {
        Some(format!(
            "ended early after {} of {} entries; next expected {}",
            got.len(),
            expected.len(),
            expected[n].short()
        ))
    } else {
        Some(format!(
            "yielded {} entries, expected only {}; first extra {}",
            got.len(),
            expected.len(),
            got[n].short()
        ))
    }
}

pub fn check_scan(b: &Bucket, m: &MBucket, extra: u8, what: &str) -> Result<(), Failure> {
    let exp = model_entries(m);
    let mut c = b.cursor();
    let mut got = Vec::new();
    let limit = exp.len() + 8;
    while let Some(d) = c.next() {
        got.push(Ent::of(&d));
        if got.len() > limit {
            break;
        }
    }
    if let Some(d) = seq_diff(&exp, &got) {
        return Err(Failure::new("scan", format!("{} scan: {}", what, d)));
    }
    for i in 0..extra {
        if let Some(d) = c.next() {
            return Err(Failure::new(
                "scan",
                format!(
                    "{} scan: next() call {} after the end returned {}",
                    what,
                    i + 1,
                    Ent::of(&d).short()
                ),
            ));
        }
    }
    Ok(())
}

/// seek oracle (C08): presence flag, then a contiguous suffix starting at key / pred / succ.
pub fn check_seek(b: &Bucket, m: &MBucket, key: &[u8], extra: u8, what: &str) -> Result<(), Failure> {
    check_seek_pre(b, m, key, extra, 0, what)
}

/// As `check_seek`, on a cursor that has already yielded `pre` entries (200+ = run it to the end first).
pub fn check_seek_pre(b: &Bucket, m: &MBucket, key: &[u8], extra: u8, pre: u8, what: &str) -> Result<(), Failure> {
    let exp = model_entries(m);
    let mut c = b.cursor();
    if pre >= 200 {
        let mut n = 0;
        while c.next().is_some() && n < exp.len() + 8 {
            n += 1;
        }
        let _ = c.next();
    } else {
        for _ in 0..pre {
            let _ = c.next();
        }
    }
    let exists = c.seek(key);
    let present = m.entries.contains_key(key);
    if exists != present {
        return Err(Failure::new(
            "seek",
            format!("{} seek({}): returned {} but key presence is {}", what, hex(key), exists, present),
        ));
    }
    let cur = c.current().map(|d| Ent::of(&d));
    let mut got = Vec::new();
    let limit = exp.len() + 8;
    while let Some(d) = c.next() {
        got.push(Ent::of(&d));
        if got.len() > limit {
            break;
        }
    }
    for i in 0..extra {
        if let Some(d) = c.next() {
            return Err(Failure::new(
                "seek",
                format!("{} seek({}): next() call {} after the end returned {}", what, hex(key), i + 1, Ent::of(&d).short()),
            ));
        }
    }
    // position of first entry >= key
    let succ = exp.iter().position(|e| e.key() >= key).unwrap_or(exp.len());
    let mut starts = Vec::new();
    if present {
        starts.push(succ);
    } else {
        starts.push(succ);
        if succ > 0 {
            starts.push(succ - 1);
        }
    }
    let ok = starts.iter().any(|s| exp[*s..] == got[..]);
    if !ok {
        let d = seq_diff(&exp[starts[0]..], &got).unwrap_or_default();
        return Err(Failure::new(
            "seek",
            format!(
                "{} seek({}) [present={}]: entries after seek are not the suffix starting at the key or an immediate neighbour: {} (got {} entries, bucket has {}, successor index {})",
                what, hex(key), present, d, got.len(), exp.len(), succ
            ),
        ));
    }
    if present {
        match &cur {
            Some(e) if e.key() == key => {}
            other => {
                return Err(Failure::new(
                    "seek",
                    format!("{} seek({}) found the key but current() is {:?}", what, hex(key), other.as_ref().map(|e| e.short())),
                ))
            }
        }
    } else if let Some(e) = &cur {
        if !exp.contains(e) {
            return Err(Failure::new(
                "seek",
                format!("{} seek({}): current() returned {} which is not an entry", what, hex(key), e.short()),
            ));
        }
    }
    Ok(())
}

/// One long-lived cursor re-seeked to each key in turn without being drained (`takes[i]` entries
/// are read between seeks). After every seek: the return value, `current()` when the key exists,
/// and the entries read must be the start of the suffix at the key or at an immediate neighbour.
pub fn check_seek_chain(b: &Bucket, m: &MBucket, keys: &[Vec<u8>], takes: &[u8], what: &str) -> Result<(), Failure> {
    let exp = model_entries(m);
    let mut c = b.cursor();
    for (i, key) in keys.iter().enumerate() {
        let take = takes.get(i % takes.len().max(1)).copied().unwrap_or(0) as usize;
        let exists = c.seek(key);
        let present = m.entries.contains_key(key.as_slice());
        if exists != present {
            return Err(Failure::new(
                "seek",
                format!("{} re-used cursor, seek #{} ({}): returned {} but key presence is {}", what, i + 1, hex(key), exists, present),
            ));
        }
        let cur = c.current().map(|d| Ent::of(&d));
        if present {
            match &cur {
                Some(e) if e.key() == key.as_slice() => {}
                other => {
                    return Err(Failure::new(
                        "seek",
                        format!("{} re-used cursor, seek #{} ({}) found the key but current() is {:?}", what, i + 1, hex(key), other.as_ref().map(|e| e.short())),
                    ))
                }
            }
        }
        let mut got = Vec::new();
        for _ in 0..take {
            match c.next() {
                Some(d) => got.push(Ent::of(&d)),
                None => break,
            }
        }
        let succ = exp.iter().position(|e| e.key() >= key.as_slice()).unwrap_or(exp.len());
        let mut starts = vec![succ];
        if !present && succ > 0 {
            starts.push(succ - 1);
        }
        let ok = starts.iter().any(|s| {
            let want = &exp[*s..];
            let n = take.min(want.len());
            got.len() == n && want[..n] == got[..]
        });
        if !ok {
            return Err(Failure::new(
                "seek",
                format!(
                    "{} re-used cursor, seek #{} ({}) [present={}] then {} x next(): got {:?}, expected the entries from index {} (or its predecessor) of {}",
                    what, i + 1, hex(key), present, take, got.iter().map(|e| e.short()).collect::<Vec<_>>(), succ, exp.len()
                ),
            ));
        }
    }
    Ok(())
}

pub fn in_bounds(k: &[u8], lo: &Bound<Vec<u8>>, hi: &Bound<Vec<u8>>) -> bool {
    let lo_ok = match lo {
        Bound::Unbounded => true,
        Bound::Included(a) => k >= a.as_slice(),
        Bound::Excluded(a) => k > a.as_slice(),
    };
    let hi_ok = match hi {
        Bound::Unbounded => true,
        Bound::Included(a) => k <= a.as_slice(),
        Bound::Excluded(a) => k < a.as_slice(),
    };
    lo_ok && hi_ok
}

fn bound_str(b: &Bound<Vec<u8>>) -> String {
    match b {
        Bound::Unbounded => "unbounded".into(),
        Bound::Included(a) => format!("incl {}", hex(a)),
        Bound::Excluded(a) => format!("excl {}", hex(a)),
    }
}

/// range oracle (C08). mode: 0 tuple-of-bounds, 1 std range types where expressible,
/// 2 to_buckets filter, 3 to_kv_pairs filter, 4/5 as 2/3 with std range types.
pub fn check_range(
    b: &Bucket,
    m: &MBucket,
    lo: &Bound<Vec<u8>>,
    hi: &Bound<Vec<u8>>,
    mode: u8,
    extra: u8,
    what: &str,
) -> Result<(), Failure> {
    use jammdb::{ToBuckets, ToKVPairs};
    let exp_all: Vec<Ent> = model_entries(m)
        .into_iter()
        .filter(|e| in_bounds(e.key(), lo, hi))
        .collect();
    let filter = match mode % 6 {
        2 | 4 => 1,
        3 | 5 => 2,
        _ => 0,
    };
    let exp: Vec<Ent> = exp_all
        .into_iter()
        .filter(|e| match filter {
            1 => matches!(e, Ent::B(_)),
            2 => matches!(e, Ent::Kv(..)),
            _ => true,
        })
        .collect();
    let limit = m.entries.len() + 8;
    let los: Bound<&[u8]> = match lo {
        Bound::Unbounded => Bound::Unbounded,
        Bound::Included(a) => Bound::Included(a.as_slice()),
        Bound::Excluded(a) => Bound::Excluded(a.as_slice()),
    };
    let his: Bound<&[u8]> = match hi {
        Bound::Unbounded => Bound::Unbounded,
        Bound::Included(a) => Bound::Included(a.as_slice()),
        Bound::Excluded(a) => Bound::Excluded(a.as_slice()),
    };
    let std_types = matches!(mode % 6, 1 | 4 | 5);
    let mut got: Vec<Ent> = Vec::new();
    let mut after_end: Option<String> = None;
    macro_rules! drive {
        ($r:expr) => {{
            match filter {
                0 => {
                    let mut it = $r;
                    while let Some(d) = it.next() {
                        got.push(Ent::of(&d));
                        if got.len() > limit {
                            break;
                        }
                    }
                    for i in 0..extra {
                        if let Some(d) = it.next() {
                            after_end = Some(format!("next() call {} after the end returned {}", i + 1, Ent::of(&d).short()));
                            break;
                        }
                    }
                }
                1 => {
                    let mut it = $r.to_buckets();
                    while let Some((n, _b)) = it.next() {
                        got.push(Ent::B(n.name().to_vec()));
                        if got.len() > limit {
                            break;
                        }
                    }
                    for i in 0..extra {
                        if let Some((n, _)) = it.next() {
                            after_end = Some(format!("next() call {} after the end returned bucket {}", i + 1, hex(n.name())));
                            break;
                        }
                    }
                }
                _ => {
                    let mut it = $r.to_kv_pairs();
                    while let Some(kv) = it.next() {
                        got.push(Ent::Kv(kv.key().to_vec(), kv.value().to_vec()));
                        if got.len() > limit {
                            break;
                        }
                    }
                    for i in 0..extra {
                        if let Some(kv) = it.next() {
                            after_end = Some(format!("next() call {} after the end returned {}", i + 1, hex(kv.key())));
                            break;
                        }
                    }
                }
            }
        }};
    }
    match (std_types, los, his) {
        (true, Bound::Included(a), Bound::Excluded(z)) => drive!(b.range(a..z)),
        (true, Bound::Included(a), Bound::Included(z)) => drive!(b.range(a..=z)),
        (true, Bound::Included(a), Bound::Unbounded) => drive!(b.range(a..)),
        (true, Bound::Unbounded, Bound::Excluded(z)) => drive!(b.range(..z)),
        (true, Bound::Unbounded, Bound::Included(z)) => drive!(b.range(..=z)),
        (true, Bound::Unbounded, Bound::Unbounded) => drive!(b.range(..)),
        (_, l, h) => drive!(b.range((l, h))),
    }
    let desc = format!(
        "{} range[{} , {}] mode {}",
        what,
        bound_str(lo),
        bound_str(hi),
        mode % 6
    );
    if let Some(d) = seq_diff(&exp, &got) {
        return Err(Failure::new("range", format!("{}: {}", desc, d)));
    }
    if let Some(a) = after_end {
        return Err(Failure::new("range", format!("{}: {}", desc, a)));
    }
    Ok(())
}

fn resolve_bound(m: &MBucket, b: &BoundSel) -> Bound<Vec<u8>> {
    match b {
        BoundSel::Unb => Bound::Unbounded,
        BoundSel::Inc(k) => Bound::Included(resolve_key(m, k)),
        BoundSel::Exc(k) => Bound::Excluded(resolve_key(m, k)),
    }
}

/// The whole read API of one bucket against the model (C07).
pub fn check_bucket_full(b: &Bucket, m: &MBucket, what: &str, probes: usize) -> Result<(), Failure> {
    let ni = b.next_int();
    if ni != m.next_int {
        return Err(Failure::new(
            "ret",
            format!("{} next_int expected {} got {}", what, m.next_int, ni),
        ));
    }
    check_scan(b, m, 2, what)?;
    // point lookups for every key and derived absent keys
    for (k, n) in &m.entries {
        data_matches(&b.get(k), Some(n), k, &format!("{} get", what))?;
        let kv = b.get_kv(k);
        match (n, &kv) {
            (MNode::Val(v), Some(kv)) if kv.key() == k.as_slice() && kv.value() == v.as_slice() => {}
            (MNode::Bucket(_), None) => {}
            _ => {
                return Err(Failure::new(
                    "ret",
                    format!("{} get_kv({}) wrong: got {:?}", what, hex(k), kv.map(|kv| hex(kv.value()))),
                ))
            }
        }
    }
    let keys: Vec<&Vec<u8>> = m.entries.keys().collect();
    let step = (keys.len() / probes.max(1)).max(1);
    let mut absent: Vec<Vec<u8>> = vec![vec![], vec![0], vec![0xff; 3]];
    for k in keys.iter().step_by(step) {
        let mut a = (*k).clone();
        a.push(0);
        absent.push(a);
        let mut a = (*k).clone();
        a.pop();
        absent.push(a);
        let mut a = (*k).clone();
        if let Some(l) = a.last_mut() {
            *l = l.wrapping_add(1);
        }
        absent.push(a);
    }
    for a in &absent {
        data_matches(&b.get(a), m.entries.get(a), a, &format!("{} get", what))?;
    }
    // listings
    let exp_b: Vec<Vec<u8>> = m
        .entries
        .iter()
        .filter(|(_, n)| matches!(n, MNode::Bucket(_)))
        .map(|(k, _)| k.clone())
        .collect();
    let got_b: Vec<Vec<u8>> = b.buckets().map(|(n, _)| n.name().to_vec()).take(exp_b.len() + 4).collect();
    if exp_b != got_b {
        return Err(Failure::new(
            "scan",
            format!("{} buckets(): expected {} names got {}: {:?} vs {:?}", what, exp_b.len(), got_b.len(),
                exp_b.iter().map(|k| hex(k)).take(6).collect::<Vec<_>>(), got_b.iter().map(|k| hex(k)).take(6).collect::<Vec<_>>()),
        ));
    }
    let exp_kv: Vec<(Vec<u8>, Vec<u8>)> = m
        .entries
        .iter()
        .filter_map(|(k, n)| match n {
            MNode::Val(v) => Some((k.clone(), v.clone())),
            _ => None,
        })
        .collect();
    let got_kv: Vec<(Vec<u8>, Vec<u8>)> = b
        .kv_pairs()
        .map(|kv| (kv.key().to_vec(), kv.value().to_vec()))
        .take(exp_kv.len() + 4)
        .collect();
    if exp_kv != got_kv {
        return Err(Failure::new(
            "scan",
            format!("{} kv_pairs(): expected {} pairs got {}", what, exp_kv.len(), got_kv.len()),
        ));
    }
    // seek / range samples
    for k in absent.iter().take(9).chain(keys.iter().step_by(step).map(|k| *k)) {
        check_seek(b, m, k, 1, what)?;
    }
    // one long-lived cursor re-seeked without draining: ascending over sampled keys (crossing
    // leaves and subtrees), then back and forth
    if keys.len() >= 2 {
        let mut chain: Vec<Vec<u8>> = keys.iter().step_by(step).map(|k| (*k).clone()).collect();
        chain.push(keys[keys.len() - 1].clone());
        let n = chain.len();
        for i in 0..n.min(6) {
            chain.push(chain[(i * 7 + 3) % n].clone());
        }
        chain.extend(absent.iter().take(6).cloned());
        check_seek_chain(b, m, &chain, &[0, 1, 2, 0, 3], what)?;
    }
    if !keys.is_empty() {
        let a = keys[keys.len() / 3].clone();
        let z = keys[(2 * keys.len()) / 3].clone();
        check_range(b, m, &Bound::Included(a.clone()), &Bound::Excluded(z.clone()), 0, 1, what)?;
        check_range(b, m, &Bound::Excluded(a.clone()), &Bound::Included(z.clone()), 0, 1, what)?;
        check_range(b, m, &Bound::Unbounded, &Bound::Included(a), 1, 1, what)?;
        check_range(b, m, &Bound::Included(z), &Bound::Unbounded, 1, 1, what)?;
    }
    Ok(())
}

fn check_root_listing(tx: &Tx, work: &MBucket) -> Result<(), Failure> {
    let exp: Vec<Vec<u8>> = work
        .entries
        .iter()
        .filter(|(_, n)| matches!(n, MNode::Bucket(_)))
        .map(|(k, _)| k.clone())
        .collect();
    let got: Vec<Vec<u8>> = tx.buckets().map(|(n, _)| n.name().to_vec()).take(exp.len() + 4).collect();
    if exp != got {
        return Err(Failure::new(
            "scan",
            format!(
                "Tx::buckets(): expected {:?} got {:?}",
                exp.iter().map(|k| hex(k)).take(8).collect::<Vec<_>>(),
                got.iter().map(|k| hex(k)).take(8).collect::<Vec<_>>()
            ),
        ));
    }
    Ok(())
}

/// Opens the bucket handles that `exec_op` would open for this operation, without performing
/// the operation itself (used by differential runs that leave an operation out).
pub fn touch_target<'b, 'tx, 'r>(ctx: &mut TxCtx<'b, 'tx, 'r>, op: &Op, work: &MBucket) -> Result<(), Failure> {
    let (b, allow_root) = match op {
        Op::Put { b, .. } | Op::Get { b, .. } | Op::GetKv { b, .. } | Op::Delete { b, .. } | Op::PutRun { b, .. } | Op::DeleteRun { b, .. } => (*b, false),
        Op::GetBucket { b, .. } | Op::CreateBucket { b, .. } | Op::GetOrCreate { b, .. } | Op::DeleteBucket { b, .. } => (*b, true),
        _ => return Ok(()),
    };
    if let Some(p) = select_path(work, b, allow_root) {
        if !p.is_empty() {
            ctx.ensure(&p)?;
        }
    }
    Ok(())
}

/// Executes one op against jammdb and the working model.
pub fn exec_op<'b, 'tx, 'r>(ctx: &mut TxCtx<'b, 'tx, 'r>, op: &Op, work: &mut MBucket) -> Result<(), Failure> {
    ctx.stats.ops += 1;
    if ctx.fresh_handles {
        ctx.handles.clear();
    }
    let w = ctx.writable;
    let ro = |r: Result<(), MErr>| -> Result<(), MErr> {
        if w {
            r
        } else {
            Err(MErr::ReadOnlyTx)
        }
    };
    macro_rules! kv_target {
        ($b:expr) => {{
            match select_path(work, *$b, false) {
                Some(p) => {
                    ctx.ensure(&p)?;
                    p
                }
                None => {
                    ctx.stats.skipped_ops += 1;
                    return Ok(());
                }
            }
        }};
    }
    match op {
        Op::Put { b, k, v, kk, vk } => {
            let p = kv_target!(b);
            let key = resolve_key(work.bucket(&p).unwrap(), k);
            let val = resolve_val(v, key.len());
            if key.is_empty() {
                ctx.stats.empty_key = true;
            }
            if key.len() as u64 > 1024 {
                ctx.stats.huge_key = true;
            }
            let what = format!("put({}{} <- {} bytes)", path_str(&p), hex(&key), val.len());
            let h = ctx.handles.get(&p).unwrap();
            let arena = ctx.arena;
            let got = with_arg!(*kk, &key, arena, |ka| with_arg!(*vk, &val, arena, |va| h.put(ka, va)));
            let exp = if w {
                let mb = work.bucket_mut(&p).unwrap();
                mb.put(&key, &val)
            } else {
                ctx.stats.ro_mutator_attempts += 1; ctx.ro_kinds |= 1;
                Err(MErr::ReadOnlyTx)
            };
            match (&got, &exp) {
                (Ok(g), Ok(e)) => {
                    let g2 = g.as_ref().map(|kv| (kv.key().to_vec(), kv.value().to_vec()));
                    if g2 != *e {
                        return Err(Failure::new(
                            "ret",
                            format!("{}: previous pair expected {:?} got {:?}", what,
                                e.as_ref().map(|(k, v)| (hex(k), hex(v))), g2.as_ref().map(|(k, v)| (hex(k), hex(v)))),
                        ));
                    }
                    ctx.tx_inserted = true;
                }
                _ => {
                    cmp_err(&what, &got, &exp.map(|_| ()))?;
                    ctx.stats.err_returns += 1;
                }
            }
            ctx.touch(&p);
        }
        Op::Get { b, k } => {
            let p = kv_target!(b);
            let mb = work.bucket(&p).unwrap();
            let key = resolve_key(mb, k);
            let h = ctx.handles.get(&p).unwrap();
            data_matches(&h.get(&key), mb.entries.get(&key), &key, &format!("get({}{})", path_str(&p), hex(&key)))?;
        }
        Op::GetKv { b, k } => {
            let p = kv_target!(b);
            let mb = work.bucket(&p).unwrap();
            let key = resolve_key(mb, k);
            let h = ctx.handles.get(&p).unwrap();
            let got = h.get_kv(&key).map(|kv| (kv.key().to_vec(), kv.value().to_vec()));
            let exp = match mb.entries.get(&key) {
                Some(MNode::Val(v)) => Some((key.clone(), v.clone())),
                _ => None,
            };
            if got != exp {
                return Err(Failure::new(
                    "ret",
                    format!("get_kv({}{}): expected {:?} got {:?}", path_str(&p), hex(&key),
                        exp.map(|(_, v)| hex(&v)), got.map(|(k, v)| (hex(&k), hex(&v)))),
                ));
            }
        }
        Op::Delete { b, k } => {
            let p = kv_target!(b);
            let key = resolve_key(work.bucket(&p).unwrap(), k);
            let what = format!("delete({}{})", path_str(&p), hex(&key));
            let h = ctx.handles.get(&p).unwrap();
            let got = h.delete(&key);
            let exp = if w {
                work.bucket_mut(&p).unwrap().delete(&key)
            } else {
                ctx.stats.ro_mutator_attempts += 1; ctx.ro_kinds |= 2;
                Err(MErr::ReadOnlyTx)
            };
            match (&got, &exp) {
                (Ok(g), Ok(e)) => {
                    if g.key() != e.0.as_slice() || g.value() != e.1.as_slice() {
                        return Err(Failure::new(
                            "ret",
                            format!("{}: removed pair expected ({}, {}) got ({}, {})", what, hex(&e.0), hex(&e.1), hex(g.key()), hex(g.value())),
                        ));
                    }
                    ctx.tx_deleted = true;
                }
                _ => {
                    cmp_err(&what, &got, &exp.map(|_| ()))?;
                    ctx.stats.err_returns += 1;
                }
            }
            ctx.touch(&p);
        }
        Op::PutRun { b, base, start, step, n, klen, vlen } => {
            let p = kv_target!(b);
            for i in 0..*n as u32 {
                let key = run_key(base, *start as u32 + i * (*step as u32), *klen as usize);
                let val = fill_bytes(*vlen as usize, (i % 251) as u8);
                let h = ctx.handles.get(&p).unwrap();
                let got = match i % 3 {
                    0 => h.put(key.clone(), val.clone()),
                    1 => h.put(&*ctx.arena.alloc_slice_copy(&key), &*ctx.arena.alloc_slice_copy(&val)),
                    _ => h.put(bytes::Bytes::from(key.clone()), bytes::Bytes::from(val.clone())),
                };
                let exp = if w {
                    work.bucket_mut(&p).unwrap().put(&key, &val)
                } else {
                    ctx.stats.ro_mutator_attempts += 1; ctx.ro_kinds |= 1;
                    Err(MErr::ReadOnlyTx)
                };
                let what = format!("put_run({}{})", path_str(&p), hex(&key));
                match (&got, &exp) {
                    (Ok(g), Ok(e)) => {
                        let g2 = g.as_ref().map(|kv| (kv.key().to_vec(), kv.value().to_vec()));
                        if g2 != *e {
                            return Err(Failure::new("ret", format!("{}: previous pair mismatch", what)));
                        }
                        ctx.tx_inserted = true;
                    }
                    _ => {
                        cmp_err(&what, &got, &exp.map(|_| ()))?;
                        ctx.stats.err_returns += 1;
                    }
                }
            }
            ctx.touch(&p);
        }
        Op::DeleteRun { b, start, n } => {
            let p = kv_target!(b);
            let keys: Vec<Vec<u8>> = {
                let mb = work.bucket(&p).unwrap();
                let kvs: Vec<&Vec<u8>> = mb
                    .entries
                    .iter()
                    .filter(|(_, n)| matches!(n, MNode::Val(_)))
                    .map(|(k, _)| k)
                    .collect();
                if kvs.is_empty() {
                    vec![]
                } else {
                    let s = idx(*start, kvs.len());
                    kvs[s..(s + *n as usize).min(kvs.len())].iter().map(|k| (*k).clone()).collect()
                }
            };
            for key in keys {
                let h = ctx.handles.get(&p).unwrap();
                let got = h.delete(&key);
                let exp = if w {
                    work.bucket_mut(&p).unwrap().delete(&key)
                } else {
                    ctx.stats.ro_mutator_attempts += 1; ctx.ro_kinds |= 2;
                    Err(MErr::ReadOnlyTx)
                };
                let what = format!("delete_run({}{})", path_str(&p), hex(&key));
                match (&got, &exp) {
                    (Ok(g), Ok(e)) => {
                        if g.key() != e.0.as_slice() || g.value() != e.1.as_slice() {
                            return Err(Failure::new("ret", format!("{}: removed pair mismatch", what)));
                        }
                        ctx.tx_deleted = true;
                    }
                    _ => {
                        cmp_err(&what, &got, &exp.map(|_| ()))?;
                        ctx.stats.err_returns += 1;
                    }
                }
            }
            ctx.touch(&p);
        }
        Op::GetBucket { b, k, kk } | Op::CreateBucket { b, k, kk } | Op::GetOrCreate { b, k, kk } => {
            let p = match select_path(work, *b, true) {
                Some(p) => p,
                None => return Ok(()),
            };
            if !p.is_empty() {
                ctx.ensure(&p)?;
            }
            let key = resolve_key(work.bucket(&p).unwrap(), k);
            if key.is_empty() {
                ctx.stats.empty_key = true;
            }
            let (name, exp) = match op {
                Op::GetBucket { .. } => ("get_bucket", work.bucket(&p).unwrap().get_bucket(&key)),
                Op::CreateBucket { .. } => (
                    "create_bucket",
                    if w {
                        work.bucket_mut(&p).unwrap().create_bucket(&key)
                    } else {
                        ctx.stats.ro_mutator_attempts += 1; ctx.ro_kinds |= if p.is_empty() { 8 } else { 4 };
                        Err(MErr::ReadOnlyTx)
                    },
                ),
                _ => (
                    "get_or_create_bucket",
                    if w {
                        work.bucket_mut(&p).unwrap().get_or_create_bucket(&key)
                    } else {
                        ctx.stats.ro_mutator_attempts += 1; ctx.ro_kinds |= if p.is_empty() { 32 } else { 16 };
                        Err(MErr::ReadOnlyTx)
                    },
                ),
            };
            let what = format!("{}({}{})", name, path_str(&p), hex(&key));
            let arena = ctx.arena;
            let tx = ctx.tx;
            let got: Result<Bucket<'b, 'tx>, Error> = if p.is_empty() {
                match op {
                    Op::GetBucket { .. } => with_arg!(*kk, &key, arena, |a| tx.get_bucket(a)),
                    Op::CreateBucket { .. } => with_arg!(*kk, &key, arena, |a| tx.create_bucket(a)),
                    _ => with_arg!(*kk, &key, arena, |a| tx.get_or_create_bucket(a)),
                }
            } else {
                let h = ctx.handles.get(&p).unwrap();
                match op {
                    Op::GetBucket { .. } => with_arg!(*kk, &key, arena, |a| h.get_bucket(a)),
                    Op::CreateBucket { .. } => with_arg!(*kk, &key, arena, |a| h.create_bucket(a)),
                    _ => with_arg!(*kk, &key, arena, |a| h.get_or_create_bucket(a)),
                }
            };
            cmp_err(&what, &got, &exp)?;
            match got {
                Ok(nb) => {
                    let mut np = p.clone();
                    np.push(key);
                    if !matches!(op, Op::GetBucket { .. }) {
                        ctx.tx_inserted = true;
                    }
                    // keep the handle (replaces an older one for the same path)
                    ctx.handles.insert(np.clone(), nb);
                    ctx.touch(&np);
                }
                Err(_) => ctx.stats.err_returns += 1,
            }
            if !p.is_empty() {
                ctx.touch(&p);
            }
        }
        Op::DeleteBucket { b, k, kk } => {
            let p = match select_path(work, *b, true) {
                Some(p) => p,
                None => return Ok(()),
            };
            if !p.is_empty() {
                ctx.ensure(&p)?;
            }
            let key = resolve_key(work.bucket(&p).unwrap(), k);
            let exp = ro(Ok(())).and_then(|_| work.bucket_mut(&p).unwrap().delete_bucket(&key));
            if !w {
                ctx.stats.ro_mutator_attempts += 1; ctx.ro_kinds |= if p.is_empty() { 128 } else { 64 };
            }
            let what = format!("delete_bucket({}{})", path_str(&p), hex(&key));
            let mut np = p.clone();
            np.push(key.clone());
            if exp.is_ok() {
                // handles to the deleted bucket and its descendants must not be used again
                ctx.drop_prefix(&np);
                ctx.touched.retain(|t| !(t.len() >= np.len() && t[..np.len()] == np[..]));
            }
            let arena = ctx.arena;
            let got = if p.is_empty() {
                with_arg!(*kk, &key, arena, |a| ctx.tx.delete_bucket(a))
            } else {
                let h = ctx.handles.get(&p).unwrap();
                with_arg!(*kk, &key, arena, |a| h.delete_bucket(a))
            };
            cmp_err(&what, &got, &exp)?;
            if got.is_ok() {
                ctx.stats.bucket_deletes += 1;
                ctx.tx_deleted = true;
                if !p.is_empty() {
                    ctx.stats.nested_bucket_delete = true;
                }
            } else {
                ctx.stats.err_returns += 1;
            }
            if !p.is_empty() {
                ctx.touch(&p);
            }
        }
        Op::NextInt { b } => {
            let p = kv_target!(b);
            let h = ctx.handles.get(&p).unwrap();
            let got = h.next_int();
            let exp = work.bucket(&p).unwrap().next_int;
            if got != exp {
                return Err(Failure::new(
                    "ret",
                    format!("next_int({}) expected {} got {}", path_str(&p), exp, got),
                ));
            }
        }
        Op::Scan { b, extra } => {
            let p = kv_target!(b);
            let h = ctx.handles.get(&p).unwrap();
            ctx.stats.in_tx_scans += 1;
            check_scan(h, work.bucket(&p).unwrap(), *extra, &path_str(&p))?;
        }
        Op::Seek { b, k, n } => {
            let p = kv_target!(b);
            let mb = work.bucket(&p).unwrap();
            let key = resolve_key(mb, k);
            let h = ctx.handles.get(&p).unwrap();
            ctx.stats.seeks += 1;
            check_seek(h, mb, &key, *n % 3, &path_str(&p))?;
        }
        Op::Range { b, lo, hi, mode } => {
            let p = kv_target!(b);
            let mb = work.bucket(&p).unwrap();
            let lo = resolve_bound(mb, lo);
            let hi = resolve_bound(mb, hi);
            let h = ctx.handles.get(&p).unwrap();
            ctx.stats.ranges += 1;
            check_range(h, mb, &lo, &hi, *mode, 2, &path_str(&p))?;
            // the handles a range (or a cursor) hands out through to_buckets() are real handles:
            // they replace the remembered ones, so later operations of this transaction (writes
            // that must fail in a read-only transaction included) go through them
            if matches!(*mode % 6, 0 | 2 | 4) && !p.is_empty() {
                use jammdb::ToBuckets;
                let los: Bound<&[u8]> = match &lo {
                    Bound::Unbounded => Bound::Unbounded,
                    Bound::Included(a) => Bound::Included(a.as_slice()),
                    Bound::Excluded(a) => Bound::Excluded(a.as_slice()),
                };
                let his: Bound<&[u8]> = match &hi {
                    Bound::Unbounded => Bound::Unbounded,
                    Bound::Included(a) => Bound::Included(a.as_slice()),
                    Bound::Excluded(a) => Bound::Excluded(a.as_slice()),
                };
                let limit = mb.entries.len() + 4;
                let mut subs = Vec::new();
                if *mode % 6 == 0 {
                    for (n, sb) in h.cursor().to_buckets().take(limit) {
                        subs.push((n.name().to_vec(), sb));
                    }
                } else {
                    for (n, sb) in h.range((los, his)).to_buckets().take(limit) {
                        subs.push((n.name().to_vec(), sb));
                    }
                }
                for (k, sb) in subs {
                    if !matches!(mb.entries.get(&k), Some(MNode::Bucket(_))) {
                        return Err(Failure::new("range", format!("to_buckets() on {} handed out a bucket named {} that does not exist", path_str(&p), hex(&k))));
                    }
                    let mut np = p.clone();
                    np.push(k);
                    ctx.stats.iter_handles += 1;
                    ctx.handles.insert(np, sb);
                }
            }
        }
        Op::Buckets { b } => {
            let p = match select_path(work, *b, true) {
                Some(p) => p,
                None => return Ok(()),
            };
            if p.is_empty() {
                check_root_listing(ctx.tx, work)?;
            } else {
                ctx.ensure(&p)?;
                let mb = work.bucket(&p).unwrap();
                let exp: Vec<Vec<u8>> = mb
                    .entries
                    .iter()
                    .filter(|(_, n)| matches!(n, MNode::Bucket(_)))
                    .map(|(k, _)| k.clone())
                    .collect();
                let h = ctx.handles.get(&p).unwrap();
                let mut got = Vec::new();
                let mut subs = Vec::new();
                for (n, sb) in h.buckets() {
                    got.push(n.name().to_vec());
                    subs.push(sb);
                    if got.len() > exp.len() + 4 {
                        break;
                    }
                }
                if got != exp {
                    return Err(Failure::new(
                        "scan",
                        format!("buckets({}): expected {} names got {}", path_str(&p), exp.len(), got.len()),
                    ));
                }
                // handles obtained through iteration are real handles: remember them
                for (k, sb) in got.into_iter().zip(subs) {
                    let mut np = p.clone();
                    np.push(k);
                    ctx.handles.entry(np).or_insert(sb);
                }
            }
        }
        Op::KvPairs { b } => {
            let p = kv_target!(b);
            let mb = work.bucket(&p).unwrap();
            let exp: Vec<(Vec<u8>, Vec<u8>)> = mb
                .entries
                .iter()
                .filter_map(|(k, n)| match n {
                    MNode::Val(v) => Some((k.clone(), v.clone())),
                    _ => None,
                })
                .collect();
            let h = ctx.handles.get(&p).unwrap();
            let got: Vec<(Vec<u8>, Vec<u8>)> = h
                .kv_pairs()
                .map(|kv| (kv.key().to_vec(), kv.value().to_vec()))
                .take(exp.len() + 4)
                .collect();
            if got != exp {
                return Err(Failure::new(
                    "scan",
                    format!("kv_pairs({}): expected {} pairs got {}", path_str(&p), exp.len(), got.len()),
                ));
            }
        }
    }
    Ok(())
}

fn clone_err(e: &Error) -> Error {
    match e {
        Error::BucketExists => Error::BucketExists,
        Error::BucketMissing => Error::BucketMissing,
        Error::KeyValueMissing => Error::KeyValueMissing,
        Error::IncompatibleValue => Error::IncompatibleValue,
        Error::ReadOnlyTx => Error::ReadOnlyTx,
        other => Error::InvalidDB(format!("{}", other)),
    }
}

/// An iterator obtained BEFORE an operation and consumed after it (C07 / C08): whatever it
/// yields must lie inside its bounds, ascend strictly, and equal the model's answer either for
/// the state after the operation (a lazily positioned iterator) or for the state before it.
struct Early<'b, 'tx> {
    // dropped first: borrows the boxed handle below
    iter: Option<Box<dyn Iterator<Item = Data<'b, 'tx>> + 'b>>,
    _key: Box<[u8]>,
    _handle: Box<Bucket<'b, 'tx>>,
    path: Path,
    lo: Bound<Vec<u8>>,
    before: MBucket,
    what: &'static str,
}

fn make_early<'b, 'tx>(tx: &'b Tx<'tx>, path: &Path, model: &MBucket, kind: u8, pick: usize) -> Option<Early<'b, 'tx>> {
    let mb = model.bucket(path)?;
    // a handle of its own, opened by name along the path
    let mut h: Option<Bucket<'b, 'tx>> = None;
    for name in path {
        let nb = match &h {
            None => tx.get_bucket(name.clone()).ok()?,
            Some(p) => p.get_bucket(name.clone()).ok()?,
        };
        h = Some(nb);
    }
    let handle = Box::new(h?);
    let keys: Vec<&Vec<u8>> = mb.entries.keys().collect();
    let key: Box<[u8]> = if keys.is_empty() { Box::from(&b"m"[..]) } else { keys[pick % keys.len()].clone().into_boxed_slice() };
    // the boxed handle and key outlive the iterator (field order of `Early`); the references
    // handed to jammdb are only used through that iterator
    let href: &'b Bucket<'b, 'tx> = unsafe { &*(handle.as_ref() as *const Bucket<'b, 'tx>) };
    let kref: &'b [u8] = unsafe { &*(key.as_ref() as *const [u8]) };
    let (iter, lo, what): (Box<dyn Iterator<Item = Data<'b, 'tx>> + 'b>, Bound<Vec<u8>>, &'static str) = match kind % 3 {
        0 => (Box::new(href.range((Bound::Included(kref), Bound::Unbounded))), Bound::Included(key.to_vec()), "range with an included start"),
        1 => (Box::new(href.range((Bound::Excluded(kref), Bound::Unbounded))), Bound::Excluded(key.to_vec()), "range with an excluded start"),
        _ => (Box::new(href.cursor()), Bound::Unbounded, "cursor"),
    };
    Some(Early { iter: Some(iter), _key: key, _handle: handle, path: path.clone(), lo, before: mb.clone(), what })
}

fn check_early(mut e: Early, model_after: &MBucket) -> Result<(), Failure> {
    let after = match model_after.bucket(&e.path) {
        Some(b) => b,
        None => return Ok(()),
    };
    let mut got: Vec<Ent> = Vec::new();
    let limit = e.before.entries.len() + after.entries.len() + 8;
    if let Some(it) = e.iter.take() {
        for d in it {
            got.push(Ent::of(&d));
            if got.len() > limit {
                break;
            }
        }
    }
    let expect = |m: &MBucket| -> Vec<Ent> { model_entries(m).into_iter().filter(|x| in_bounds(x.key(), &e.lo, &Bound::Unbounded)).collect() };
    if got == expect(after) || got == expect(&e.before) {
        return Ok(());
    }
    let d = seq_diff(&expect(after), &got).unwrap_or_default();
    Err(Failure::new(
        "scan",
        format!(
            "{} {} obtained before the operation and consumed after it (start {}): yields neither the entries of the state after the operation nor of the state before it: {}",
            path_str(&e.path), e.what, match &e.lo { Bound::Included(k) => format!("incl {}", hex(k)), Bound::Excluded(k) => format!("excl {}", hex(k)), Bound::Unbounded => "unbounded".into() }, d
        ),
    ))
}

/// Runs the ops of one transaction. Returns Ok(true) if it committed.
pub fn run_tx(
    db: &DB,
    spec: &TxSpec,
    fresh_handles: bool,
    work: &mut MBucket,
    opts: &RunOpts,
    stats: &mut CaseStats,
    op_at: &mut Option<usize>,
    after_ops: Option<&mut dyn FnMut(&mut TxCtx, &MBucket) -> Result<(), Failure>>,
) -> Result<bool, Failure> {
    let writable = spec.kind != TxKind::Read;
    let arena = Bump::new();
    let mut dance = if writable && opts.reader_dance != 0 {
        Some(db.tx(false).map_err(|e| Failure::new("tx_err", format!("tx(false) failed: {}", e)))?)
    } else {
        None
    };
    let tx = db
        .tx(writable)
        .map_err(|e| Failure::new("tx_err", format!("tx({}) failed: {}", writable, e)))?;
    if opts.reader_dance == 2 {
        dance.take();
    }
    let mut tx_deleted = false;
    let mut tx_inserted = false;
    {
        let mut ctx = TxCtx {
            tx: &tx,
            arena: &arena,
            handles: HashMap::new(),
            fresh_handles,
            writable,
            stats,
            touched: Vec::new(),
            tx_deleted: false,
            tx_inserted: false,
            ro_kinds: 0,
        };
        for (oi, op) in spec.ops.iter().enumerate() {
            *op_at = Some(oi);
            ctx.touched.clear();
            let errs_before = ctx.stats.err_returns;
            // iterators obtained now, consumed after the operation (key-level operations only:
            // they never delete the bucket an iterator stands on)
            let mut early: Vec<Early> = Vec::new();
            if opts.full_check_every_op && writable && matches!(op, Op::Put { .. } | Op::Delete { .. } | Op::PutRun { .. } | Op::DeleteRun { .. }) {
                let target = match op {
                    Op::Put { b, .. } | Op::Delete { b, .. } | Op::PutRun { b, .. } | Op::DeleteRun { b, .. } => select_path(work, *b, false),
                    _ => None,
                };
                if let Some(p) = target {
                    let n = work.bucket(&p).map(|b| b.entries.len()).unwrap_or(0);
                    for (kind, pick) in [(0u8, oi * 7 + 1), (1, oi * 5 + 2), (0, n / 2), (1, n.saturating_sub(2)), (2, 0)] {
                        if let Some(e) = make_early(ctx.tx, &p, work, kind, pick) {
                            early.push(e);
                        }
                    }
                }
            }
            exec_op(&mut ctx, op, work)?;
            for e in early.drain(..) {
                check_early(e, work)?;
                ctx.stats.early_iters += 1;
            }
            if opts.dump_after_error && ctx.stats.err_returns > errs_before {
                // a call that returned an error must have changed nothing
                let d = dump_tx(ctx.tx).map_err(|s| Failure::new("scan", format!("in-tx dump after an erroring call: {}", s)))?;
                if let Some(df) = diff(work, &d, &mut vec![], false) {
                    return Err(Failure::new("err_changed", format!("after a call that returned an error the transaction's view changed: {}", df)));
                }
                ctx.stats.dumps_after_error += 1;
            }
            if opts.full_check_every_op {
                // touched buckets and their ancestors
                let mut todo: Vec<Path> = Vec::new();
                for t in ctx.touched.clone() {
                    for l in 1..=t.len() {
                        let p = t[..l].to_vec();
                        if !todo.contains(&p) {
                            todo.push(p);
                        }
                    }
                }
                for p in todo {
                    if let Some(mb) = work.bucket(&p) {
                        ctx.ensure(&p)?;
                        let h = ctx.handles.get(&p).unwrap();
                        check_bucket_full(h, mb, &path_str(&p), 6)?;
                    }
                }
                check_root_listing(ctx.tx, work)?;
            }
            if opts.dump_every_op {
                let d = dump_tx(ctx.tx).map_err(|s| Failure::new("scan", format!("in-tx dump: {}", s)))?;
                if let Some(df) = diff(work, &d, &mut vec![], false) {
                    return Err(Failure::new("scan", format!("in-tx dump after op: {}", df)));
                }
            }
        }
        if let Some(f) = after_ops {
            f(&mut ctx, work)?;
        }
        tx_deleted |= ctx.tx_deleted;
        tx_inserted |= ctx.tx_inserted;
        if !writable {
            // commit is attempted below on every read-only transaction
            let kinds = ctx.ro_kinds | 256;
            if kinds.count_ones() > ctx.stats.ro_mutator_kinds.count_ones() {
                ctx.stats.ro_mutator_kinds = kinds;
            }
        }
    }
    *op_at = None;
    drop(dance.take());
    if tx_deleted && tx_inserted && stats.max_height >= 2 {
        stats.multi_leaf_tx_with_delete_and_insert = true;
    }
    match spec.kind {
        TxKind::Commit => {
            if opts.markers {
                mark("BEGIN");
            }
            match tx.commit() {
                Ok(()) => {
                    if opts.markers {
                        mark("OK");
                    }
                    Ok(true)
                }
                Err(e) => {
                    if opts.markers {
                        mark("ERR");
                    }
                    Err(Failure::new("commit_err", format!("commit failed: {}", e)))
                }
            }
        }
        TxKind::Read => {
            // commit on a reader must be refused
            match tx.commit() {
                Err(Error::ReadOnlyTx) => Ok(false),
                Err(e) => Err(Failure::new("ret", format!("commit on read-only tx: expected ReadOnlyTx got {}", e))),
                Ok(()) => Err(Failure::new("ret", "commit on read-only tx returned Ok".into())),
            }
        }
        _ => {
            drop(tx);
            Ok(false)
        }
    }
}

/// Re-encodes both header records of the (closed) database file in the legacy format, in place.
pub fn legacy_convert(path: &FsPath, ps: u64) -> Result<(), String> {
    use std::io::{Read, Seek, SeekFrom, Write};
    let mut f = std::fs::OpenOptions::new().read(true).write(true).open(path).map_err(|e| e.to_string())?;
    let mut head = vec![0u8; 2 * ps as usize];
    f.read_exact(&mut head).map_err(|e| e.to_string())?;
    crate::golden::to_legacy(&mut head, ps)?;
    f.seek(SeekFrom::Start(0)).map_err(|e| e.to_string())?;
    f.write_all(&head).map_err(|e| e.to_string())?;
    f.sync_all().map_err(|e| e.to_string())
}

pub struct Committed {
    pub stats: fsck::Stats,
}

/// All committed-state oracles: fresh reader dump, independent parser, DB::check.
pub fn verify_committed(db: &DB, model: &MBucket, opts: &RunOpts, cfg: &Cfg, what: &str) -> Result<Option<fsck::Stats>, Failure> {
    if opts.dump_after_commit {
        let d = dump_db(db)?;
        compare_dump(model, &d, &format!("{} (fresh reader)", what))?;
    }
    let mut st = None;
    if opts.fsck_after_commit {
        let (bytes, file_len) = read_prefix(&opts.path, cfg.pagesize)?;
        let rep = fsck::fsck_len(&bytes, cfg.pagesize, file_len);
        if !rep.ok() {
            return Err(Failure::new(
                "fsck",
                format!("{}: file not well-formed: {}", what, rep.errors.join("; ")),
            ));
        }
        let d = rep.dump.as_ref().unwrap();
        if let Some(df) = diff(model, d, &mut vec![], true) {
            return Err(Failure::new(
                "fsck_dump",
                format!("{}: file contents differ from the model: {}", what, df),
            ));
        }
        st = Some(rep.stats);
    }
    if opts.dbcheck_after_commit {
        match catch(|| db.check()) {
            Err(p) => return Err(Failure::from_panic(p)),
            Ok(Err(e)) => {
                return Err(Failure::new(
                    "dbcheck",
                    format!("{}: DB::check() reports: {}", what, e),
                ))
            }
            Ok(Ok(())) => {}
        }
    }
    Ok(st)
}

/// Reads the file up to the larger high-water mark of its two headers; returns (bytes, file length).
pub fn read_prefix(path: &FsPath, ps: u64) -> Result<(Vec<u8>, u64), Failure> {
    use std::io::Read;
    let mut f = std::fs::File::open(path).map_err(|e| Failure::new("io", e.to_string()))?;
    let file_len = f.metadata().map_err(|e| Failure::new("io", e.to_string()))?.len();
    let head_len = (2 * ps).min(file_len) as usize;
    let mut head = vec![0u8; head_len];
    f.read_exact(&mut head).map_err(|e| Failure::new("io", e.to_string()))?;
    let (_, slots) = fsck::choose_meta(&head, ps);
    let hw = slots.iter().flatten().map(|m| m.num_pages).max().unwrap_or(4).min(1 << 26);
    let want = hw.saturating_mul(ps).min(file_len);
    if want as usize > head.len() {
        let mut rest = vec![0u8; want as usize - head.len()];
        f.read_exact(&mut rest).map_err(|e| Failure::new("io", e.to_string()))?;
        head.extend(rest);
    }
    Ok((head, file_len))
}

pub struct Outcome {
    pub stats: CaseStats,
    pub result: Result<(), Failure>,
    pub model: MBucket,
    /// model after every successful commit (index 0 = after the first commit)
    pub commit_models: Vec<MBucket>,
    /// the two header pages after every successful commit (only with RunOpts::snap_headers)
    pub header_snaps: Vec<Vec<u8>>,
}

/// Runs a whole history. The scratch file at opts.path is created fresh unless start_model is set.
pub fn run_history(case: &HistoryCase, opts: &RunOpts) -> Outcome {
    run_history_with(case, opts, None)
}

/// As `run_history`, optionally continuing on an already open handle (the file is then not re-created).
pub fn run_history_with(case: &HistoryCase, opts: &RunOpts, db: Option<DB>) -> Outcome {
    let mut stats = CaseStats::default();
    let mut model = opts.start_model.clone().unwrap_or_default();
    if opts.start_model.is_none() {
        let _ = std::fs::remove_file(&opts.path);
    }
    let mut commit_models = Vec::new();
    let mut header_snaps = Vec::new();
    let with_dance;
    let opts = if case.dance > opts.reader_dance {
        let mut o = opts.clone();
        o.reader_dance = case.dance;
        with_dance = o;
        &with_dance
    } else {
        opts
    };
    if opts.reader_dance != 0 {
        stats.reader_dance = true;
    }
    let result = run_history_inner(case, opts, &mut stats, &mut model, &mut commit_models, &mut header_snaps, db);
    if !opts.keep_file {
        let _ = std::fs::remove_file(&opts.path);
    }
    Outcome {
        stats,
        result,
        model,
        commit_models,
        header_snaps,
    }
}

fn run_history_inner(
    case: &HistoryCase,
    opts: &RunOpts,
    stats: &mut CaseStats,
    model: &mut MBucket,
    commit_models: &mut Vec<MBucket>,
    header_snaps: &mut Vec<Vec<u8>>,
    initial_db: Option<DB>,
) -> Result<(), Failure> {
    let cfg = &case.cfg;
    let mut db = match initial_db {
        Some(d) => Some(d),
        None => Some(open_db(cfg, &opts.path).map_err(|f| f.at(0, None))?),
    };
    if opts.markers {
        mark("OPENED");
    }
    let mut prev_stats: Option<fsck::Stats> = None;
    let mut pending_rollback = false;
    let initial_len = std::fs::metadata(&opts.path).map(|m| m.len()).unwrap_or(0);
    let ntx = case.txs.len();
    for (ti, spec) in case.txs.iter().enumerate() {
        match spec.kind {
            TxKind::Reopen => {
                let h0 = if opts.bytes_unchanged {
                    Some(file_hash(&opts.path).map_err(|e| Failure::new("io", e))?)
                } else {
                    None
                };
                drop(db.take());
                if opts.legacy_at == Some(ti) {
                    if opts.markers {
                        mark("HBEGIN");
                    }
                    legacy_convert(&opts.path, cfg.pagesize).map_err(|e| Failure::new("harness_panic", format!("legacy conversion: {}", e)).at(ti, None))?;
                    if opts.markers {
                        mark("HEND");
                    }
                }
                if opts.bytes_unchanged && ti % 2 == 1 {
                    // "Setting num_pages when opening an existing database has no effect"
                    let mut other = cfg.clone();
                    other.num_pages = cfg.num_pages * 50 + 7;
                    let probe = open_db(&other, &opts.path).map_err(|f| f.at(ti, None))?;
                    drop(probe);
                }
                db = Some(open_db(cfg, &opts.path).map_err(|f| f.at(ti, None))?);
                stats.reopens += 1;
                if ti + 1 < ntx {
                    stats.reopen_mid = true;
                }
                verify_committed(db.as_ref().unwrap(), model, opts, cfg, "after reopen").map_err(|f| f.at(ti, None))?;
                if let Some(h0) = h0 {
                    let h1 = file_hash(&opts.path).map_err(|e| Failure::new("io", e))?;
                    if h0 != h1 {
                        return Err(Failure::new("bytes_changed", "closing, reopening and reading the database changed the file's bytes".into()).at(ti, None));
                    }
                }
            }
            TxKind::Commit | TxKind::Rollback | TxKind::Read => {
                let h0 = if opts.bytes_unchanged && spec.kind != TxKind::Commit {
                    Some(file_hash(&opts.path).map_err(|e| Failure::new("io", e))?)
                } else {
                    None
                };
                let mut work = model.clone();
                let mut op_at = None;
                let dbr = db.as_ref().unwrap();
                let n_mut = spec.ops.iter().filter(|o| o.is_mutation()).count();
                let r = catch(|| run_tx(dbr, spec, case.fresh_handles, &mut work, opts, stats, &mut op_at, None));
                let committed = match r {
                    Err(p) => return Err(Failure::from_panic(p).at(ti, op_at)),
                    Ok(Err(f)) => return Err(f.at(ti, op_at)),
                    Ok(Ok(c)) => c,
                };
                match spec.kind {
                    TxKind::Commit => {
                        debug_assert!(committed);
                        let changed = work != *model;
                        *model = work;
                        stats.commits += 1;
                        if opts.snap_headers || opts.markers {
                            commit_models.push(model.clone());
                        }
                        if opts.snap_headers {
                            use std::io::Read;
                            let mut buf = vec![0u8; 2 * cfg.pagesize as usize];
                            if let Ok(mut f) = std::fs::File::open(&opts.path) {
                                let _ = f.read_exact(&mut buf);
                            }
                            header_snaps.push(buf);
                        }
                        if changed {
                            stats.mut_commits += 1;
                            if pending_rollback {
                                stats.rollback_then_commit = true;
                            }
                        }
                        let st = verify_committed(dbr, model, opts, cfg, &format!("after commit of tx {}", ti)).map_err(|f| f.at(ti, None))?;
                        if let Some(st) = st {
                            stats.fsck_runs += 1;
                            if st.max_height > stats.max_height {
                                stats.max_height = st.max_height;
                            }
                            if st.overflow_pages > 0 {
                                stats.overflow = true;
                            }
                            if st.num_pages > stats.max_pages {
                                stats.max_pages = st.num_pages;
                            }
                            if let Some(ps) = &prev_stats {
                                if st.max_height < ps.max_height {
                                    stats.height_decreased = true;
                                }
                                if st.reachable_pages < ps.reachable_pages {
                                    stats.pages_decreased = true;
                                }
                                if st.leaf_pages > ps.leaf_pages && ps.leaf_pages >= 1 {
                                    stats.split = true;
                                }
                            }
                            prev_stats = Some(st);
                        }
                        let len = std::fs::metadata(&opts.path).map(|m| m.len()).unwrap_or(0);
                        if len > initial_len {
                            stats.growth = true;
                        }
                    }
                    TxKind::Rollback => {
                        stats.rollbacks += 1;
                        if n_mut >= 10 || spec.ops.iter().any(|o| matches!(o, Op::DeleteBucket { .. })) {
                            stats.big_rollbacks += 1;
                        }
                        pending_rollback = true;
                    }
                    _ => {
                        stats.read_txs += 1;
                    }
                }
                if let Some(h0) = h0 {
                    let h1 = file_hash(&opts.path).map_err(|e| Failure::new("io", e))?;
                    if h0 != h1 {
                        return Err(Failure::new(
                            "bytes_changed",
                            format!("a {:?} transaction changed the file's bytes", spec.kind),
                        )
                        .at(ti, None));
                    }
                }
                if spec.kind != TxKind::Commit && opts.dump_after_commit {
                    // later transactions must see the prior committed state
                    let d = dump_db(dbr).map_err(|f| f.at(ti, None))?;
                    compare_dump(model, &d, &format!("after {:?} of tx {}", spec.kind, ti)).map_err(|f| f.at(ti, None))?;
                }
            }
        }
    }
    if opts.final_reopen {
        drop(db.take());
        let db2 = open_db(cfg, &opts.path).map_err(|f| f.at(ntx, None))?;
        stats.reopens += 1;
        verify_committed(&db2, model, opts, cfg, "after final reopen").map_err(|f| f.at(ntx, None))?;
    }
    stats.final_entries = model.count_entries() as u64;
    Ok(())
}
