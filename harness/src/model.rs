//! E1 reference model: a nested ordered map with per-bucket insertion counters.
//! Follows the documented API semantics (DESIGN.md 1.3); shares no code with jammdb.

use serde::{Deserialize, Serialize};
use std::collections::BTreeMap;

#[derive(Clone, Debug, PartialEq, Eq, Serialize, Deserialize)]
pub enum MNode {
    Val(Vec<u8>),
    Bucket(MBucket),
}

#[derive(Clone, Debug, PartialEq, Eq, Default, Serialize, Deserialize)]
pub struct MBucket {
    pub next_int: u64,
    pub entries: BTreeMap<Vec<u8>, MNode>,
}

#[derive(Clone, Copy, Debug, PartialEq, Eq, Serialize, Deserialize)]
pub enum MErr {
    BucketExists,
    BucketMissing,
    KeyValueMissing,
    IncompatibleValue,
    ReadOnlyTx,
}

pub type Path = Vec<Vec<u8>>;

impl MBucket {
    pub fn bucket(&self, path: &[Vec<u8>]) -> Option<&MBucket> {
        let mut b = self;
        for p in path {
            match b.entries.get(p) {
                Some(MNode::Bucket(nb)) => b = nb,
                _ => return None,
            }
        }
        Some(b)
    }

    pub fn bucket_mut(&mut self, path: &[Vec<u8>]) -> Option<&mut MBucket> {
        let mut b = self;
        for p in path {
            match b.entries.get_mut(p) {
                Some(MNode::Bucket(nb)) => b = nb,
                _ => return None,
            }
        }
        Some(b)
    }

    /// put: returns the previous pair if the key existed as a key/value pair.
    pub fn put(&mut self, key: &[u8], val: &[u8]) -> Result<Option<(Vec<u8>, Vec<u8>)>, MErr> {
        match self.entries.get_mut(key) {
            Some(MNode::Bucket(_)) => Err(MErr::IncompatibleValue),
            Some(MNode::Val(v)) => {
                let old = std::mem::replace(v, val.to_vec());
                Ok(Some((key.to_vec(), old)))
            }
            None => {
                self.next_int += 1;
                self.entries.insert(key.to_vec(), MNode::Val(val.to_vec()));
                Ok(None)
            }
        }
    }

    pub fn delete(&mut self, key: &[u8]) -> Result<(Vec<u8>, Vec<u8>), MErr> {
        match self.entries.get(key) {
            None => Err(MErr::KeyValueMissing),
            Some(MNode::Bucket(_)) => Err(MErr::IncompatibleValue),
            Some(MNode::Val(_)) => match self.entries.remove(key) {
                Some(MNode::Val(v)) => Ok((key.to_vec(), v)),
                _ => unreachable!(),
            },
        }
    }

    pub fn get_bucket(&self, key: &[u8]) -> Result<(), MErr> {
        match self.entries.get(key) {
            None => Err(MErr::BucketMissing),
            Some(MNode::Val(_)) => Err(MErr::IncompatibleValue),
            Some(MNode::Bucket(_)) => Ok(()),
        }
    }

    pub fn create_bucket(&mut self, key: &[u8]) -> Result<(), MErr> {
        match self.entries.get(key) {
            Some(MNode::Val(_)) => Err(MErr::IncompatibleValue),
            Some(MNode::Bucket(_)) => Err(MErr::BucketExists),
            None => {
                self.next_int += 1;
                self.entries
                    .insert(key.to_vec(), MNode::Bucket(MBucket::default()));
                Ok(())
            }
        }
    }

    pub fn get_or_create_bucket(&mut self, key: &[u8]) -> Result<(), MErr> {
        match self.entries.get(key) {
            Some(MNode::Val(_)) => Err(MErr::IncompatibleValue),
            Some(MNode::Bucket(_)) => Ok(()),
            None => self.create_bucket(key),
        }
    }

    pub fn delete_bucket(&mut self, key: &[u8]) -> Result<(), MErr> {
        match self.entries.get(key) {
            None => Err(MErr::BucketMissing),
            Some(MNode::Val(_)) => Err(MErr::IncompatibleValue),
            Some(MNode::Bucket(_)) => {
                self.entries.remove(key);
                Ok(())
            }
        }
    }

    /// All bucket paths below (and including) this bucket, depth-first, `prefix` first.
    pub fn all_paths(&self, prefix: &Path, out: &mut Vec<Path>) {
        out.push(prefix.clone());
        for (k, n) in &self.entries {
            if let MNode::Bucket(b) = n {
                let mut p = prefix.clone();
                p.push(k.clone());
                b.all_paths(&p, out);
            }
        }
    }

    pub fn count_entries(&self) -> usize {
        self.entries
            .values()
            .map(|n| match n {
                MNode::Val(_) => 1,
                MNode::Bucket(b) => 1 + b.count_entries(),
            })
            .sum()
    }

    pub fn depth(&self) -> usize {
        1 + self
            .entries
            .values()
            .map(|n| match n {
                MNode::Val(_) => 0,
                MNode::Bucket(b) => b.depth(),
            })
            .max()
            .unwrap_or(0)
    }
}

pub fn hex(b: &[u8]) -> String {
    if b.len() <= 24 && b.iter().all(|c| c.is_ascii_graphic()) {
        format!("'{}'", String::from_utf8_lossy(b))
    } else if b.len() > 40 {
        let mut s = String::new();
        for c in &b[..16] {
            s.push_str(&format!("{:02x}", c));
        }
        format!("x{}..(len {})", s, b.len())
    } else {
        let mut s = String::from("x");
        for c in b {
            s.push_str(&format!("{:02x}", c));
        }
        s
    }
}

pub fn path_str(p: &[Vec<u8>]) -> String {
    let mut s = String::from("/");
    for e in p {
        s.push_str(&hex(e));
        s.push('/');
    }
    s
}

/// First difference between two buckets (expected = model, got = observed), if any.
/// `check_root_int` = compare `next_int` at the top level too.
pub fn diff(expected: &MBucket, got: &MBucket, path: &mut Path, check_int: bool) -> Option<String> {
    if check_int && expected.next_int != got.next_int {
        return Some(format!(
            "bucket {}: next_int expected {} got {}",
            path_str(path),
            expected.next_int,
            got.next_int
        ));
    }
    let mut ei = expected.entries.iter();
    let mut gi = got.entries.iter();
    loop {
        match (ei.next(), gi.next()) {
            (None, None) => return None,
            (Some((k, _)), None) => {
                return Some(format!(
                    "bucket {}: missing key {} (expected {} entries, got {})",
                    path_str(path),
                    hex(k),
                    expected.entries.len(),
                    got.entries.len()
                ))
            }
            (None, Some((k, _))) => {
                return Some(format!(
                    "bucket {}: unexpected extra key {} (expected {} entries, got {})",
                    path_str(path),
                    hex(k),
                    expected.entries.len(),
                    got.entries.len()
                ))
            }
            (Some((ek, en)), Some((gk, gn))) => {
                if ek != gk {
                    return Some(format!(
                        "bucket {}: expected key {} but found {} (expected {} entries, got {})",
                        path_str(path),
                        hex(ek),
                        hex(gk),
                        expected.entries.len(),
                        got.entries.len()
                    ));
                }
                match (en, gn) {
                    (MNode::Val(a), MNode::Val(b)) => {
                        if a != b {
                            return Some(format!(
                                "bucket {} key {}: value expected {} got {}",
                                path_str(path),
                                hex(ek),
                                hex(a),
                                hex(b)
                            ));
                        }
                    }
                    (MNode::Bucket(a), MNode::Bucket(b)) => {
                        path.push(ek.clone());
                        let d = diff(a, b, path, true);
                        path.pop();
                        if d.is_some() {
                            return d;
                        }
                    }
                    (MNode::Val(_), MNode::Bucket(_)) => {
                        return Some(format!(
                            "bucket {} key {}: expected a value, found a bucket",
                            path_str(path),
                            hex(ek)
                        ))
                    }
                    (MNode::Bucket(_), MNode::Val(_)) => {
                        return Some(format!(
                            "bucket {} key {}: expected a bucket, found a value",
                            path_str(path),
                            hex(ek)
                        ))
                    }
                }
            }
        }
    }
}

fn hx(b: &[u8]) -> String {
    let mut s = String::with_capacity(b.len() * 2);
    for c in b {
        s.push_str(&format!("{:02x}", c));
    }
    s
}

fn unhx(s: &str) -> Option<Vec<u8>> {
    if s.len() % 2 != 0 {
        return None;
    }
    (0..s.len() / 2)
        .map(|i| u8::from_str_radix(&s[2 * i..2 * i + 2], 16).ok())
        .collect()
}

impl MBucket {
    /// JSON form with hex keys/values: {"next_int": n, "entries": [[key, {"v": hex} | {"b": bucket}], ...]}
    pub fn to_value(&self) -> serde_json::Value {
        let entries: Vec<serde_json::Value> = self
            .entries
            .iter()
            .map(|(k, n)| match n {
                MNode::Val(v) => serde_json::json!([hx(k), {"v": hx(v)}]),
                MNode::Bucket(b) => serde_json::json!([hx(k), {"b": b.to_value()}]),
            })
            .collect();
        serde_json::json!({"next_int": self.next_int, "entries": entries})
    }

    pub fn from_value(v: &serde_json::Value) -> Option<MBucket> {
        let mut out = MBucket {
            next_int: v.get("next_int")?.as_u64()?,
            entries: BTreeMap::new(),
        };
        for e in v.get("entries")?.as_array()? {
            let k = unhx(e.get(0)?.as_str()?)?;
            let n = e.get(1)?;
            if let Some(val) = n.get("v") {
                out.entries.insert(k, MNode::Val(unhx(val.as_str()?)?));
            } else {
                out.entries.insert(k, MNode::Bucket(MBucket::from_value(n.get("b")?)?));
            }
        }
        Some(out)
    }
}
