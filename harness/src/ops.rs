//! E1 operation grammar, case types and proptest strategies.

use proptest::prelude::*;
use serde::{Deserialize, Serialize};

#[derive(Serialize, Deserialize, Clone, Debug, PartialEq, Eq, Hash)]
pub struct Cfg {
    pub pagesize: u64,
    pub num_pages: usize,
    pub strict: bool,
    pub populate: bool,
}

impl Default for Cfg {
    fn default() -> Self {
        Cfg {
            pagesize: 1024,
            num_pages: 32,
            strict: false,
            populate: false,
        }
    }
}

#[derive(Serialize, Deserialize, Clone, Debug, PartialEq, Eq, Hash)]
pub enum KeySel {
    /// i-th existing key (any kind) of the selected bucket, index-mapped
    Ex(u16),
    ExKv(u16),
    ExBucket(u16),
    /// neighbour of the i-th existing key: tweak 0 append 00, 1 drop last byte, 2 last+1, 3 last-1
    Near(u16, u8),
    Lit(Vec<u8>),
    Empty,
    /// key longer than a 1 KiB page
    Huge { len: u16, seed: u8 },
}

#[derive(Serialize, Deserialize, Clone, Debug, PartialEq, Eq, Hash)]
pub enum ValSel {
    Lit(Vec<u8>),
    Fill { len: u32, seed: u8 },
    /// value sized so that key length + value length = `total` (used to make a one-element leaf
    /// serialise to exactly a whole number of pages, or one byte off)
    Fit { total: u32, seed: u8 },
}

#[derive(Serialize, Deserialize, Clone, Debug, PartialEq, Eq, Hash)]
pub enum BoundSel {
    Unb,
    Inc(KeySel),
    Exc(KeySel),
}

#[derive(Serialize, Deserialize, Clone, Debug, PartialEq, Eq, Hash)]
pub enum Op {
    Put { b: u16, k: KeySel, v: ValSel, kk: u8, vk: u8 },
    Get { b: u16, k: KeySel },
    GetKv { b: u16, k: KeySel },
    Delete { b: u16, k: KeySel },
    /// n keys base+counter (padded to klen; klen >= 250 means 500, 800, ... bytes), counter = start, start+step, ...
    PutRun { b: u16, base: Vec<u8>, start: u16, step: u8, n: u8, klen: u8, vlen: u16 },
    /// delete n consecutive existing key/value pairs starting at the start-th entry
    DeleteRun { b: u16, start: u16, n: u8 },
    GetBucket { b: u16, k: KeySel, kk: u8 },
    CreateBucket { b: u16, k: KeySel, kk: u8 },
    GetOrCreate { b: u16, k: KeySel, kk: u8 },
    DeleteBucket { b: u16, k: KeySel, kk: u8 },
    NextInt { b: u16 },
    Scan { b: u16, extra: u8 },
    Seek { b: u16, k: KeySel, n: u8 },
    Range { b: u16, lo: BoundSel, hi: BoundSel, mode: u8 },
    Buckets { b: u16 },
    KvPairs { b: u16 },
}

impl Op {
    pub fn is_mutation(&self) -> bool {
        matches!(
            self,
            Op::Put { .. }
                | Op::Delete { .. }
                | Op::PutRun { .. }
                | Op::DeleteRun { .. }
                | Op::CreateBucket { .. }
                | Op::GetOrCreate { .. }
                | Op::DeleteBucket { .. }
        )
    }
}

#[derive(Serialize, Deserialize, Clone, Copy, Debug, PartialEq, Eq, Hash)]
pub enum TxKind {
    Commit,
    Rollback,
    Read,
    Reopen,
}

#[derive(Serialize, Deserialize, Clone, Debug, PartialEq, Eq, Hash)]
pub struct TxSpec {
    pub kind: TxKind,
    pub ops: Vec<Op>,
}

#[derive(Serialize, Deserialize, Clone, Debug, PartialEq, Eq, Hash)]
pub struct HistoryCase {
    pub cfg: Cfg,
    /// re-acquire bucket handles from the root for every operation
    pub fresh_handles: bool,
    pub txs: Vec<TxSpec>,
    /// a short-lived reader accompanies every write transaction (see RunOpts::reader_dance):
    /// 0 none, 1 closed just before commit, 2 closed right after the writer began
    #[serde(default)]
    pub dance: u8,
}

pub fn fill_bytes(len: usize, seed: u8) -> Vec<u8> {
    let mut v = Vec::with_capacity(len);
    let mut x = (seed as u32).wrapping_mul(2654435761u32) ^ 0x9e3779b9 ^ (len as u32);
    if x == 0 {
        x = 1;
    }
    for _ in 0..len {
        x ^= x << 13;
        x ^= x >> 17;
        x ^= x << 5;
        v.push(b'a' + (x % 26) as u8);
    }
    v
}

pub fn run_key(base: &[u8], counter: u32, klen: usize) -> Vec<u8> {
    // klen 250.. selects long keys (500, 800, 1100, ... bytes): two of them do not fit a
    // 1024-byte branch page, so branch pages get overflow runs
    let klen = if klen >= 250 { (klen - 249) * 300 + 200 } else { klen };
    let mut k = base.to_vec();
    k.extend_from_slice(format!("{:05}", counter).as_bytes());
    while k.len() < klen {
        k.push(b'_');
    }
    k
}

/// bucket selectors below this value address the root bucket in operations that allow it
pub const ROOT_SEL: u16 = 0x2000;

/// smallest selector that `idx` maps to element `want` of `total`
pub fn sel_for(want: usize, total: usize) -> u16 {
    let mut b = (want << 16) / total;
    while idx(b as u16, total) < want {
        b += 1;
    }
    b as u16
}

/// smallest root-allowing selector that addresses non-root bucket `want` of `total`
pub fn sel_nonroot_for(want: usize, total: usize) -> u16 {
    let span = 0x10000 - ROOT_SEL as usize;
    let mut b = (want * span) / total;
    while (b * total) / span < want {
        b += 1;
    }
    (b + ROOT_SEL as usize) as u16
}

/// monotone index mapping (shrinks towards earlier elements)
pub fn idx(i: u16, len: usize) -> usize {
    ((i as usize) * len) >> 16
}

// ---------------------------------------------------------------- strategies

pub fn small_key() -> impl Strategy<Value = Vec<u8>> {
    prop_oneof![
        6 => prop::collection::vec(prop::sample::select(vec![b'a', b'b', b'c', b'm', b'z']), 1..4),
        2 => prop::collection::vec(prop::sample::select(vec![b'a', b'b', 0u8, 0xffu8]), 1..6),
        1 => prop::collection::vec(any::<u8>(), 1..24),
    ]
}

pub fn key_sel() -> impl Strategy<Value = KeySel> {
    prop_oneof![
        5 => any::<u16>().prop_map(KeySel::Ex),
        3 => any::<u16>().prop_map(KeySel::ExKv),
        2 => any::<u16>().prop_map(KeySel::ExBucket),
        3 => (any::<u16>(), 0u8..4).prop_map(|(i, t)| KeySel::Near(i, t)),
        6 => small_key().prop_map(KeySel::Lit),
        1 => Just(KeySel::Empty),
        1 => (0u16..3000, any::<u8>()).prop_map(|(len, seed)| KeySel::Huge { len, seed }),
    ]
}

/// key selector for creating things: mostly fresh
pub fn new_key_sel() -> impl Strategy<Value = KeySel> {
    prop_oneof![
        10 => small_key().prop_map(KeySel::Lit),
        2 => any::<u16>().prop_map(KeySel::Ex),
        2 => (any::<u16>(), 0u8..4).prop_map(|(i, t)| KeySel::Near(i, t)),
        1 => Just(KeySel::Empty),
        1 => (0u16..3000, any::<u8>()).prop_map(|(len, seed)| KeySel::Huge { len, seed }),
    ]
}

pub fn val_sel(ps: u32) -> impl Strategy<Value = ValSel> {
    prop_oneof![
        2 => Just(ValSel::Lit(vec![])),
        // 16 bytes: the size of a nested bucket's stored meta (all zero for a bucket created in this transaction)
        1 => prop_oneof![Just(ValSel::Lit(vec![0u8; 16])), prop::collection::vec(any::<u8>(), 16).prop_map(ValSel::Lit)],
        6 => prop::collection::vec(any::<u8>(), 1..12).prop_map(ValSel::Lit),
        4 => (ps / 8..ps / 3, any::<u8>()).prop_map(|(len, seed)| ValSel::Fill { len, seed }),
        2 => (ps - 200..ps + 200, any::<u8>()).prop_map(|(len, seed)| ValSel::Fill { len, seed }),
        1 => (2 * ps..12 * ps, any::<u8>()).prop_map(|(len, seed)| ValSel::Fill { len, seed }),
        // a one-element leaf of exactly k pages (40-byte page header + 32-byte element header), +-1 byte
        1 => (1u32..6, -1i32..2, any::<u8>()).prop_map(move |(k, d, seed)| ValSel::Fit { total: ((k * ps) as i32 - 72 + d) as u32, seed }),
    ]
}

pub fn bound_sel() -> impl Strategy<Value = BoundSel> {
    prop_oneof![
        1 => Just(BoundSel::Unb),
        2 => key_sel().prop_map(BoundSel::Inc),
        2 => key_sel().prop_map(BoundSel::Exc),
    ]
}

#[derive(Clone, Copy, Debug)]
pub struct OpWeights {
    pub put: u32,
    pub get: u32,
    pub delete: u32,
    pub put_run: u32,
    pub delete_run: u32,
    pub bucket_get: u32,
    pub bucket_create: u32,
    pub bucket_delete: u32,
    pub read_misc: u32,
    pub seek_range: u32,
}

impl Default for OpWeights {
    fn default() -> Self {
        OpWeights {
            put: 10,
            get: 3,
            delete: 6,
            put_run: 5,
            delete_run: 5,
            bucket_get: 2,
            bucket_create: 5,
            bucket_delete: 2,
            read_misc: 3,
            seek_range: 2,
        }
    }
}

pub fn op(ps: u32, w: OpWeights) -> impl Strategy<Value = Op> {
    let b = || any::<u16>();
    prop_oneof![
        (w.put).max(1) => (b(), new_key_sel(), val_sel(ps), 0u8..11, 0u8..11)
            .prop_map(|(b, k, v, kk, vk)| Op::Put { b, k, v, kk, vk }),
        (w.put / 2).max(1) => (b(), key_sel(), val_sel(ps), 0u8..11, 0u8..11)
            .prop_map(|(b, k, v, kk, vk)| Op::Put { b, k, v, kk, vk }),
        (w.get).max(1) => (b(), key_sel()).prop_map(|(b, k)| Op::Get { b, k }),
        (w.get / 2 + 1).max(1) => (b(), key_sel()).prop_map(|(b, k)| Op::GetKv { b, k }),
        (w.delete).max(1) => (b(), key_sel()).prop_map(|(b, k)| Op::Delete { b, k }),
        (w.put_run).max(1) => (
            b(),
            prop::collection::vec(prop::sample::select(vec![b'a', b'k', b'z']), 0..2),
            0u16..60,
            1u8..4,
            1u8..40,
            prop::sample::select(vec![0u8, 0, 0, 0, 8, 8, 60, 60, 200, 200, 250, 251]),
            prop::sample::select(vec![0u16, 10, 90, 200, 400, 1000])
        )
            .prop_map(|(b, base, start, step, n, klen, vlen)| Op::PutRun {
                b,
                base,
                start,
                step,
                n,
                klen,
                vlen
            }),
        (w.delete_run).max(1) => (b(), any::<u16>(), 1u8..40).prop_map(|(b, start, n)| Op::DeleteRun { b, start, n }),
        (w.bucket_get).max(1) => (b(), key_sel(), 0u8..11).prop_map(|(b, k, kk)| Op::GetBucket { b, k, kk }),
        (w.bucket_create).max(1) => (b(), new_key_sel(), 0u8..11).prop_map(|(b, k, kk)| Op::CreateBucket { b, k, kk }),
        (w.bucket_create / 2 + 1).max(1) => (b(), key_sel(), 0u8..11).prop_map(|(b, k, kk)| Op::GetOrCreate { b, k, kk }),
        (w.bucket_delete).max(1) => (b(), prop_oneof![4 => any::<u16>().prop_map(KeySel::ExBucket), 1 => key_sel()], 0u8..11)
            .prop_map(|(b, k, kk)| Op::DeleteBucket { b, k, kk }),
        (w.read_misc).max(1) => prop_oneof![
            b().prop_map(|b| Op::NextInt { b }),
            (b(), 0u8..4).prop_map(|(b, extra)| Op::Scan { b, extra }),
            b().prop_map(|b| Op::Buckets { b }),
            b().prop_map(|b| Op::KvPairs { b }),
        ],
        (w.seek_range).max(1) => prop_oneof![
            (b(), key_sel(), 0u8..6).prop_map(|(b, k, n)| Op::Seek { b, k, n }),
            (b(), bound_sel(), bound_sel(), 0u8..6).prop_map(|(b, lo, hi, mode)| Op::Range { b, lo, hi, mode }),
        ],
    ]
}

pub fn tx_kind(commit: u32, rollback: u32, read: u32, reopen: u32) -> impl Strategy<Value = TxKind> {
    prop_oneof![
        commit => Just(TxKind::Commit),
        rollback => Just(TxKind::Rollback),
        read => Just(TxKind::Read),
        reopen => Just(TxKind::Reopen),
    ]
}

pub fn tx_spec(ps: u32, w: OpWeights, kinds: (u32, u32, u32, u32), max_ops: usize) -> impl Strategy<Value = TxSpec> {
    (
        tx_kind(kinds.0, kinds.1, kinds.2, kinds.3),
        prop::collection::vec(op(ps, w), 0..max_ops),
    )
        .prop_map(|(kind, ops)| TxSpec {
            kind,
            ops: if kind == TxKind::Reopen { vec![] } else { ops },
        })
}

/// A first transaction that creates a few buckets so later ops have targets.
pub fn seed_tx(ps: u32) -> impl Strategy<Value = TxSpec> {
    (
        prop::collection::vec(small_key(), 1..4),
        prop::collection::vec(op(ps, OpWeights::default()), 0..20),
    )
        .prop_map(|(names, mut rest)| {
            let mut ops: Vec<Op> = names
                .into_iter()
                .map(|n| Op::GetOrCreate {
                    b: 0,
                    k: KeySel::Lit(n),
                    kk: 2,
                })
                .collect();
            ops.append(&mut rest);
            TxSpec {
                kind: TxKind::Commit,
                ops,
            }
        })
}

pub fn cfg_small() -> impl Strategy<Value = Cfg> {
    prop_oneof![
        8 => Just(Cfg { pagesize: 1024, num_pages: 32, strict: false, populate: false }),
        1 => Just(Cfg { pagesize: 1024, num_pages: 4, strict: false, populate: false }),
        1 => Just(Cfg { pagesize: 4096, num_pages: 32, strict: false, populate: false }),
    ]
}

pub fn history(max_txs: usize, max_ops: usize, w: OpWeights, kinds: (u32, u32, u32, u32)) -> impl Strategy<Value = HistoryCase> {
    cfg_small().prop_flat_map(move |cfg| {
        let ps = cfg.pagesize as u32;
        (
            Just(cfg),
            prop::bool::weighted(0.2),
            seed_tx(ps),
            prop::collection::vec(tx_spec(ps, w, kinds, max_ops), 0..max_txs),
            // 1 in 8 histories: a short-lived reader around every writer
            prop_oneof![14 => Just(0u8), 1 => Just(1u8), 1 => Just(2u8)],
        )
            .prop_map(|(cfg, fresh_handles, first, mut rest, dance)| {
                let mut txs = vec![first];
                txs.append(&mut rest);
                HistoryCase {
                    cfg,
                    fresh_handles,
                    txs,
                    dance,
                }
            })
    })
}
