//! Quiet panic capture: message, location and the innermost `jammdb::` frame.

use std::cell::RefCell;
use std::panic::{self, AssertUnwindSafe};
use std::sync::Once;

#[derive(Clone, Debug, Default)]
pub struct PanicRec {
    pub msg: String,
    pub location: String,
    /// innermost frame whose symbol starts with `jammdb::` (or `<jammdb::`), else ""
    pub frame: String,
}

thread_local! {
    static LAST: RefCell<Option<PanicRec>> = const { RefCell::new(None) };
    static QUIET: RefCell<bool> = const { RefCell::new(false) };
}

static INIT: Once = Once::new();

pub fn install_hook() {
    INIT.call_once(|| {
        let prev = panic::take_hook();
        panic::set_hook(Box::new(move |info| {
            let quiet = QUIET.try_with(|q| *q.borrow()).unwrap_or(false);
            if !quiet {
                prev(info);
                return;
            }
            let msg = if let Some(s) = info.payload().downcast_ref::<&str>() {
                s.to_string()
            } else if let Some(s) = info.payload().downcast_ref::<String>() {
                s.clone()
            } else {
                "<non-string panic payload>".to_string()
            };
            let location = info
                .location()
                .map(|l| format!("{}:{}", l.file(), l.line()))
                .unwrap_or_default();
            let bt = std::backtrace::Backtrace::force_capture().to_string();
            let mut frame = String::new();
            for line in bt.lines() {
                let t = line.trim();
                // lines look like "12: jammdb::bucket::InnerBucket::spill"
                if let Some(pos) = t.find(": ") {
                    let sym = &t[pos + 2..];
                    if sym.starts_with("jammdb::") || sym.starts_with("<jammdb::") {
                        frame = sym.to_string();
                        break;
                    }
                }
            }
            let _ = LAST.try_with(|l| {
                *l.borrow_mut() = Some(PanicRec {
                    msg,
                    location,
                    frame,
                })
            });
        }));
    });
}

/// Runs `f`, converting a panic into a record. Nested use is fine.
pub fn catch<T>(f: impl FnOnce() -> T) -> Result<T, PanicRec> {
    install_hook();
    let was = QUIET.with(|q| std::mem::replace(&mut *q.borrow_mut(), true));
    let r = panic::catch_unwind(AssertUnwindSafe(f));
    QUIET.with(|q| *q.borrow_mut() = was);
    match r {
        Ok(v) => Ok(v),
        Err(_) => Err(LAST
            .with(|l| l.borrow_mut().take())
            .unwrap_or_else(|| PanicRec {
                msg: "<panic without record>".into(),
                ..Default::default()
            })),
    }
}
