//! Re-executes a saved case (proptest bypassed). Page ids differ between runs, so a case
//! is executed several times and counts as failing if any run fails.

use crate::interp::{run_history, RunOpts};
use crate::ops::HistoryCase;
use crate::runner::*;

pub fn replay_file(path: &str) -> i32 {
    let s = match std::fs::read_to_string(path) {
        Ok(s) => s,
        Err(e) => {
            eprintln!("cannot read {}: {}", path, e);
            return 2;
        }
    };
    let fr: FailRec = match serde_json::from_str(&s) {
        Ok(f) => f,
        Err(e) => {
            eprintln!("cannot parse {}: {}", path, e);
            return 2;
        }
    };
    let dir = scratch_base().join(format!("jv-replay-{}", std::process::id()));
    let _ = std::fs::create_dir_all(&dir);
    let known = Known::load();
    let code = replay_rec(&fr, &dir, &known, path);
    let _ = std::fs::remove_dir_all(&dir);
    code
}

pub fn replay_rec(fr: &FailRec, dir: &std::path::Path, known: &Known, path: &str) -> i32 {
    let runs = 8;
    for i in 0..runs {
        let f = match fr.kind.as_str() {
            "history" | "history_c07" | "history_c06" => {
                let case: HistoryCase = match serde_json::from_value(fr.case.clone()) {
                    Ok(c) => c,
                    Err(e) => {
                        eprintln!("bad case: {}", e);
                        return 2;
                    }
                };
                let mut opts = RunOpts::standard(dir.join("replay.db"));
                if fr.kind == "history_c07" {
                    opts.full_check_every_op = true;
                }
                if fr.kind == "history_c06" {
                    opts.bytes_unchanged = true;
                    opts.dump_after_error = true;
                }
                run_history(&case, &opts).result.err()
            }
            other => crate::checks::replay_other(other, fr, dir),
        };
        if let Some(f) = f {
            if let Some(k) = known.matches(&fr.property, &f) {
                println!("KNOWN-FINDING: property={} {} [{}]", fr.property, k.what, k.id);
                println!("  run {}: {}", i, f.line());
                return 0;
            }
            println!("VIOLATION property={} replay={}", fr.property, path);
            println!("  run {}: {}", i, f.line());
            return 1;
        }
    }
    println!("replay of {}: no failure in {} runs", path, runs);
    0
}
