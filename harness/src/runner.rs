//! Seeds, shards, evidence, replay files and known findings.

use crate::interp::Failure;
use proptest::strategy::{Strategy, ValueTree};
use proptest::test_runner::{Config, RngAlgorithm, RngSeed, TestCaseError, TestError, TestRng, TestRunner};
use serde::{Deserialize, Serialize};
use serde_json::{json, Value};
use std::cell::RefCell;
use std::collections::{BTreeMap, BTreeSet};
use std::path::PathBuf;
use std::time::Instant;

pub const NSHARDS: usize = 16;

static SHRINK_ITERS: std::sync::atomic::AtomicU32 = std::sync::atomic::AtomicU32::new(0);

/// Overrides proptest's shrink iteration limit for expensive cases (0 = default).
pub fn set_shrink_iters(n: u32) {
    SHRINK_ITERS.store(n, std::sync::atomic::Ordering::Relaxed);
}

#[derive(Clone, Copy, Debug, PartialEq, Eq, Serialize, Deserialize)]
pub enum Tier {
    Quick,
    Thorough,
}
impl Tier {
    pub fn parse(s: &str) -> Option<Tier> {
        match s {
            "quick" => Some(Tier::Quick),
            "thorough" => Some(Tier::Thorough),
            _ => None,
        }
    }
    pub fn name(&self) -> &'static str {
        match self {
            Tier::Quick => "quick",
            Tier::Thorough => "thorough",
        }
    }
    pub fn pick<T>(&self, q: T, t: T) -> T {
        match self {
            Tier::Quick => q,
            Tier::Thorough => t,
        }
    }
}

pub fn verif_root() -> PathBuf {
    if let Ok(r) = std::env::var("VERIF_ROOT") {
        return PathBuf::from(r);
    }
    // harness binary lives in <root>/harness/target/<profile>/jv
    let exe = std::env::current_exe().unwrap_or_default();
    let mut p = exe.clone();
    for _ in 0..4 {
        p.pop();
    }
    if p.join("properties.jsonl").exists() {
        p
    } else {
        PathBuf::from("/verif")
    }
}

pub fn mix(a: u64, b: u64) -> u64 {
    let mut x = a ^ b.wrapping_mul(0x9E3779B97F4A7C15);
    x ^= x >> 30;
    x = x.wrapping_mul(0xBF58476D1CE4E5B9);
    x ^= x >> 27;
    x = x.wrapping_mul(0x94D049BB133111EB);
    x ^= x >> 31;
    x
}

pub fn hash_str(s: &str) -> u64 {
    let mut h: u64 = 0xcbf29ce484222325;
    for b in s.bytes() {
        h ^= b as u64;
        h = h.wrapping_mul(0x100000001b3);
    }
    h
}

pub fn hash_json<T: Serialize>(v: &T) -> u64 {
    hash_str(&serde_json::to_string(v).unwrap_or_default())
}

/// A tiny deterministic RNG for non-proptest choices (enumerator sampling).
pub struct Rng(pub u64);
impl Rng {
    pub fn next(&mut self) -> u64 {
        self.0 = self.0.wrapping_add(0x9E3779B97F4A7C15);
        mix(self.0, 0x1234567)
    }
    pub fn below(&mut self, n: u64) -> u64 {
        if n == 0 {
            0
        } else {
            self.next() % n
        }
    }
    pub fn chance(&mut self, num: u64, den: u64) -> bool {
        self.below(den) < num
    }
}

pub struct ShardCtx {
    pub id: String,
    pub tier: Tier,
    pub seed: u64,
    pub shard: usize,
    pub nshards: usize,
    pub scratch: PathBuf,
    pub strict_known: bool,
    /// where the shard's result goes (used for checkpoints before cases that may kill the process)
    pub out_path: Option<PathBuf>,
}

impl ShardCtx {
    pub fn shard_seed(&self, salt: &str) -> u64 {
        mix(mix(self.seed, hash_str(&self.id)), mix(self.shard as u64, hash_str(salt)))
    }
    /// Saves what has been done so far, so it survives if a later case aborts the process.
    pub fn checkpoint(&self, out: &ShardOut) {
        if let Some(p) = &self.out_path {
            let mut o = out.clone();
            o.extra.insert("checkpoint".into(), json!(1));
            let _ = std::fs::write(p, serde_json::to_string(&o).unwrap_or_default());
        }
    }
    pub fn db_path(&self, name: &str) -> PathBuf {
        self.scratch.join(name)
    }
}

#[derive(Clone, Debug, Serialize, Deserialize)]
pub struct FailRec {
    pub property: String,
    /// which replay routine understands `case`
    pub kind: String,
    pub case: Value,
    pub failure: Failure,
    pub shrunk: bool,
}

#[derive(Clone, Debug, Default, Serialize, Deserialize)]
pub struct ShardOut {
    pub evaluations: u64,
    pub nontrivial: BTreeSet<u64>,
    pub classes: BTreeMap<String, u64>,
    pub samples: Vec<Value>,
    pub failures: Vec<FailRec>,
    pub known: BTreeMap<String, u64>,
    pub excluded: u64,
    pub exhaustive: Option<bool>,
    pub inconclusive: Vec<String>,
    pub extra: BTreeMap<String, Value>,
}

impl ShardOut {
    pub fn class(&mut self, name: &str) {
        *self.classes.entry(name.to_string()).or_insert(0) += 1;
    }
    pub fn class_n(&mut self, name: &str, n: u64) {
        *self.classes.entry(name.to_string()).or_insert(0) += n;
    }
    pub fn sample(&mut self, v: Value, max: usize) {
        if self.samples.len() < max {
            self.samples.push(v);
        }
    }
    pub fn merge(&mut self, o: ShardOut) {
        self.evaluations += o.evaluations;
        self.nontrivial.extend(o.nontrivial);
        for (k, v) in o.classes {
            *self.classes.entry(k).or_insert(0) += v;
        }
        for s in o.samples {
            if self.samples.len() < 6 {
                self.samples.push(s);
            }
        }
        self.failures.extend(o.failures);
        for (k, v) in o.known {
            *self.known.entry(k).or_insert(0) += v;
        }
        self.excluded += o.excluded;
        self.exhaustive = match (self.exhaustive, o.exhaustive) {
            (None, x) => x,
            (x, None) => x,
            (Some(a), Some(b)) => Some(a && b),
        };
        self.inconclusive.extend(o.inconclusive);
        for (k, v) in o.extra {
            match (self.extra.get_mut(&k), &v) {
                (Some(Value::Number(a)), Value::Number(b)) => {
                    let s = a.as_u64().unwrap_or(0) + b.as_u64().unwrap_or(0);
                    self.extra.insert(k, json!(s));
                }
                (Some(Value::Array(a)), Value::Array(b)) => {
                    for x in b {
                        if a.len() < 40 {
                            a.push(x.clone());
                        }
                    }
                }
                (None, _) => {
                    self.extra.insert(k, v);
                }
                _ => {}
            }
        }
    }
}

// ------------------------------------------------------------------ known findings

#[derive(Clone, Debug, Serialize, Deserialize)]
pub struct KnownFinding {
    pub id: String,
    pub properties: Vec<String>,
    /// "known" suppresses (prints KNOWN-FINDING); "fixed" suppresses nothing
    pub status: String,
    #[serde(default)]
    pub kind: String,
    #[serde(default)]
    pub msg_contains: Vec<String>,
    #[serde(default)]
    pub site_contains: String,
    pub what: String,
    #[serde(default)]
    pub commit: String,
}

#[derive(Clone, Debug, Default)]
pub struct Known {
    pub list: Vec<KnownFinding>,
}

impl Known {
    pub fn load() -> Known {
        let p = verif_root().join("known_findings.json");
        let list = std::fs::read_to_string(&p)
            .ok()
            .and_then(|s| serde_json::from_str::<Vec<KnownFinding>>(&s).ok())
            .unwrap_or_default();
        Known { list }
    }
    /// Id of the listed (status "known") finding this failure matches for `prop`, if any.
    pub fn matches(&self, prop: &str, f: &Failure) -> Option<&KnownFinding> {
        self.list.iter().find(|k| {
            k.status == "known"
                && k.properties.iter().any(|p| p == prop)
                && (k.kind.is_empty() || k.kind == f.kind)
                && k.msg_contains.iter().all(|m| f.msg.contains(m.as_str()))
                && (k.site_contains.is_empty() || f.site.contains(&k.site_contains))
        })
    }
}

// ------------------------------------------------------------------ proptest driver

pub struct CaseVerdict {
    pub failure: Option<Failure>,
    pub nontrivial: bool,
    pub classes: Vec<String>,
}

/// Drives `cases` generated values through `run`. Failures matching a known finding are
/// tolerated and counted; the first other failure is shrunk and recorded.
pub fn drive<S, F>(
    ctx: &ShardCtx,
    out: &mut ShardOut,
    known: &Known,
    kind: &str,
    strat: S,
    cases: u32,
    salt: &str,
    post_shrink: Option<&dyn Fn(&S::Value) -> S::Value>,
    run: F,
) where
    S: Strategy,
    S::Value: Serialize + Clone + std::fmt::Debug,
    F: Fn(&S::Value) -> CaseVerdict,
{
    let seed = ctx.shard_seed(salt);
    let mut seed_bytes = [0u8; 32];
    for i in 0..4 {
        seed_bytes[i * 8..i * 8 + 8].copy_from_slice(&mix(seed, i as u64).to_le_bytes());
    }
    let mut cfg = Config::default();
    cfg.cases = cases;
    cfg.failure_persistence = None;
    cfg.max_shrink_iters = match SHRINK_ITERS.load(std::sync::atomic::Ordering::Relaxed) {
        0 => 1500,
        n => n,
    };
    cfg.rng_seed = RngSeed::Fixed(seed);
    cfg.max_global_rejects = 1 << 20;
    let rng = TestRng::from_seed(RngAlgorithm::ChaCha, &seed_bytes);
    let mut runner = TestRunner::new_with_rng(cfg, rng);
    struct St {
        failed: bool,
        last_failure: Option<Failure>,
    }
    let st = RefCell::new(St {
        failed: false,
        last_failure: None,
    });
    let outc = RefCell::new(std::mem::take(out));
    let prop = ctx.id.clone();
    let r = runner.run(&strat, |case| {
        let shrinking = st.borrow().failed;
        let mut v = run(&case);
        if shrinking && v.failure.is_none() {
            // page ids differ between runs (HashMap order); retry a few times while shrinking
            for _ in 0..3 {
                v = run(&case);
                if v.failure.is_some() {
                    break;
                }
            }
        }
        if !shrinking {
            let mut o = outc.borrow_mut();
            o.evaluations += 1;
            if v.nontrivial && v.failure.is_none() {
                o.nontrivial.insert(hash_json(&case));
                if o.samples.len() < 3 {
                    let js = serde_json::to_value(&case).unwrap_or(Value::Null);
                    o.samples.push(js);
                }
            }
            for c in &v.classes {
                o.class(c);
            }
        }
        match v.failure {
            None => Ok(()),
            Some(f) => {
                if let Some(k) = known.matches(&prop, &f) {
                    if !ctx.strict_known {
                        if !shrinking {
                            *outc.borrow_mut().known.entry(k.id.clone()).or_insert(0) += 1;
                        }
                        return Ok(());
                    }
                }
                let mut s = st.borrow_mut();
                s.failed = true;
                let line = f.line();
                s.last_failure = Some(f);
                Err(TestCaseError::fail(line))
            }
        }
    });
    *out = outc.into_inner();
    if let Err(e) = r {
        match e {
            TestError::Fail(_, case) => {
                let case = match post_shrink {
                    Some(ps) => ps(&case),
                    None => case,
                };
                // re-run the minimal case to get its own failure record
                let mut f = None;
                for _ in 0..4 {
                    let v = run(&case);
                    if v.failure.is_some() {
                        f = v.failure;
                        break;
                    }
                }
                let f = f.or(st.into_inner().last_failure).unwrap_or_else(|| Failure::new("unknown", "failure did not reproduce".into()));
                out.failures.push(FailRec {
                    property: ctx.id.clone(),
                    kind: kind.to_string(),
                    case: serde_json::to_value(&case).unwrap_or(Value::Null),
                    failure: f,
                    shrunk: true,
                });
            }
            TestError::Abort(r) => out.inconclusive.push(format!("proptest aborted: {}", r)),
        }
    }
}

/// Generate one value from a strategy with a deterministic seed (for samplers outside `drive`).
pub fn gen_one<S: Strategy>(strat: &S, seed: u64) -> S::Value {
    let mut seed_bytes = [0u8; 32];
    for i in 0..4 {
        seed_bytes[i * 8..i * 8 + 8].copy_from_slice(&mix(seed, i as u64).to_le_bytes());
    }
    let rng = TestRng::from_seed(RngAlgorithm::ChaCha, &seed_bytes);
    let mut runner = TestRunner::new_with_rng(Config::default(), rng);
    strat.new_tree(&mut runner).expect("strategy").current()
}

/// Handles one explicit (enumerated) case: counts it, tolerates known findings, records others.
pub fn record_case<T: Serialize>(
    ctx: &ShardCtx,
    out: &mut ShardOut,
    known: &Known,
    kind: &str,
    case: &T,
    v: CaseVerdict,
) -> bool {
    out.evaluations += 1;
    for c in &v.classes {
        out.class(c);
    }
    match v.failure {
        None => {
            if v.nontrivial {
                out.nontrivial.insert(hash_json(case));
                if out.samples.len() < 3 {
                    out.samples.push(serde_json::to_value(case).unwrap_or(Value::Null));
                }
            }
            true
        }
        Some(f) => {
            if let Some(k) = known.matches(&ctx.id, &f) {
                if !ctx.strict_known {
                    *out.known.entry(k.id.clone()).or_insert(0) += 1;
                    return true;
                }
            }
            if out.failures.len() < 5 {
                out.failures.push(FailRec {
                    property: ctx.id.clone(),
                    kind: kind.to_string(),
                    case: serde_json::to_value(case).unwrap_or(Value::Null),
                    failure: f,
                    shrunk: false,
                });
            }
            false
        }
    }
}

// ------------------------------------------------------------------ evidence

pub struct CheckMeta {
    pub id: &'static str,
    pub level: &'static str,
    pub rule: &'static str,
    pub assumptions: &'static [&'static str],
}

pub fn write_evidence(meta: &CheckMeta, tier: Tier, seed: u64, out: &ShardOut, wall: f64, violations: usize, known: &Known) {
    let root = verif_root();
    let dir = root.join("evidence");
    let _ = std::fs::create_dir_all(&dir);
    let known_hit: Vec<Value> = out
        .known
        .iter()
        .map(|(k, n)| {
            let what = known.list.iter().find(|f| &f.id == k).map(|f| f.what.clone()).unwrap_or_default();
            json!({"id": k, "cases": n, "what": what})
        })
        .collect();
    let mut coverage = serde_json::Map::new();
    coverage.insert("evaluations".into(), json!(out.evaluations));
    coverage.insert("distinct_nontrivial".into(), json!(out.nontrivial.len()));
    coverage.insert("rule".into(), json!(meta.rule));
    coverage.insert("samples".into(), json!(out.samples));
    coverage.insert("classes".into(), json!(out.classes));
    coverage.insert("known_findings_hit".into(), json!(known_hit));
    coverage.insert("excluded_by_construction".into(), json!(out.excluded));
    if let Some(e) = out.exhaustive {
        coverage.insert("exhaustive".into(), json!(e));
    }
    if !out.inconclusive.is_empty() {
        coverage.insert("inconclusive".into(), json!(out.inconclusive));
    }
    for (k, v) in &out.extra {
        coverage.insert(k.clone(), v.clone());
    }
    let ev = json!({
        "property_id": meta.id,
        "tier": tier.name(),
        "seed": seed,
        "level": meta.level,
        "coverage": Value::Object(coverage),
        "assumptions": meta.assumptions,
        "wall_s": wall,
        "violations": violations,
    });
    let p = dir.join(format!("{}.json", meta.id));
    let _ = std::fs::write(&p, serde_json::to_string_pretty(&ev).unwrap());
}

/// Writes replay files for failures; prints VIOLATION / KNOWN-FINDING lines. Returns exit code.
pub fn report(meta: &CheckMeta, out: &ShardOut, known: &Known) -> i32 {
    let root = verif_root();
    let dir = root.join("replays");
    let _ = std::fs::create_dir_all(&dir);
    for (k, n) in &out.known {
        let what = known.list.iter().find(|f| &f.id == k).map(|f| f.what.clone()).unwrap_or_default();
        println!("KNOWN-FINDING: property={} {} [{}; {} case(s) this run]", meta.id, what, k, n);
    }
    let mut seen = BTreeSet::new();
    let harness_errs: Vec<&FailRec> = out.failures.iter().filter(|f| f.failure.kind == "harness_panic").collect();
    if !harness_errs.is_empty() {
        for f in harness_errs.iter().take(3) {
            eprintln!("HARNESS-ERROR (inconclusive): {}", f.failure.line());
        }
        return 2;
    }
    for f in &out.failures {
        let h = hash_json(&f.case);
        if !seen.insert(h) {
            continue;
        }
        let p = dir.join(format!("{}-{:016x}.json", meta.id, h));
        let _ = std::fs::write(&p, serde_json::to_string_pretty(f).unwrap());
        println!("VIOLATION property={} replay={}", meta.id, p.display());
        println!("  {}", f.failure.line());
    }
    if !out.failures.is_empty() {
        1
    } else if !out.inconclusive.is_empty() && out.evaluations == 0 {
        for i in &out.inconclusive {
            eprintln!("inconclusive: {}", i);
        }
        2
    } else {
        0
    }
}

// ------------------------------------------------------------------ parent / shard plumbing

pub type ShardFn = fn(&ShardCtx, &Known) -> ShardOut;

pub fn run_parent(meta: &CheckMeta, tier: Tier, nshards: usize, extra: bool) -> i32 {
    let t0 = Instant::now();
    let seed: u64 = std::env::var("VERIF_SEED").ok().and_then(|s| s.parse().ok()).unwrap_or(1);
    let exe = std::env::current_exe().expect("current_exe");
    let base = scratch_base();
    let dir = base.join(format!("jv-{}-{}", meta.id, std::process::id()));
    let _ = std::fs::remove_dir_all(&dir);
    std::fs::create_dir_all(&dir).expect("scratch dir");
    let mut children = Vec::new();
    let total = if extra && tier == Tier::Thorough { nshards + 1 } else { nshards };
    for i in 0..total {
        let outp = dir.join(format!("shard{}.json", i));
        let sdir = dir.join(format!("s{}", i));
        std::fs::create_dir_all(&sdir).expect("shard dir");
        let ch = std::process::Command::new(&exe)
            .arg("shard")
            .arg(meta.id)
            .arg(tier.name())
            .arg(i.to_string())
            .arg(nshards.to_string())
            .arg(&outp)
            .arg(&sdir)
            .env("VERIF_SEED", seed.to_string())
            .env("RUST_BACKTRACE", "0")
            .stdout(std::process::Stdio::inherit())
            .stderr(std::process::Stdio::inherit())
            .spawn()
            .expect("spawn shard");
        children.push((i, ch, outp, sdir));
    }
    let known = Known::load();
    let mut merged = ShardOut::default();
    let mut broken = Vec::new();
    for (i, mut ch, outp, sdir) in children {
        let st = ch.wait().expect("wait");
        let parsed = std::fs::read_to_string(&outp).ok().and_then(|s| serde_json::from_str::<ShardOut>(&s).ok());
        let died = !st.success();
        match parsed {
            Some(mut o) if !died => {
                o.extra.remove("checkpoint");
                merged.merge(o)
            }
            other => {
                // merge what the shard had checkpointed before it died
                if let Some(mut o) = other {
                    o.extra.remove("checkpoint");
                    merged.merge(o);
                }
                // the shard died (signal / abort) — report the case it was executing, if recorded
                let cur = sdir.join("current.json");
                if let Ok(s) = std::fs::read_to_string(&cur) {
                    if let Ok(mut fr) = serde_json::from_str::<FailRec>(&s) {
                        fr.failure.msg = format!("shard process died ({}) while executing this case: {}", st, fr.failure.msg);
                        merged.failures.push(fr);
                        continue;
                    }
                }
                broken.push(format!("shard {} exited with {} without a result", i, st));
            }
        }
    }
    let _ = std::fs::remove_dir_all(&dir);
    let wall = t0.elapsed().as_secs_f64();
    merged.inconclusive.extend(broken.clone());
    let mut seen = BTreeSet::new();
    let nviol = merged.failures.iter().filter(|f| seen.insert(hash_json(&f.case))).count();
    write_evidence(meta, tier, seed, &merged, wall, nviol, &known);
    let code = report(meta, &merged, &known);
    println!(
        "{} {}: {} evaluations, {} distinct non-trivial, {} violation(s), {} known-finding case(s), {:.1}s",
        meta.id,
        tier.name(),
        merged.evaluations,
        merged.nontrivial.len(),
        nviol,
        merged.known.values().sum::<u64>(),
        wall
    );
    if code == 0 && !broken.is_empty() {
        for b in &broken {
            eprintln!("inconclusive: {}", b);
        }
        return 2;
    }
    code
}

pub fn scratch_base() -> PathBuf {
    if let Ok(d) = std::env::var("JV_SCRATCH") {
        return PathBuf::from(d);
    }
    let shm = PathBuf::from("/dev/shm");
    if shm.is_dir() {
        shm
    } else {
        std::env::temp_dir()
    }
}

/// Records the case about to run so the parent can report it if the process dies.
pub fn note_current<T: Serialize>(ctx: &ShardCtx, kind: &str, case: &T) {
    let fr = FailRec {
        property: ctx.id.clone(),
        kind: kind.to_string(),
        case: serde_json::to_value(case).unwrap_or(Value::Null),
        failure: Failure::new("crash", "process terminated".into()),
        shrunk: false,
    };
    let _ = std::fs::write(ctx.scratch.join("current.json"), serde_json::to_string(&fr).unwrap_or_default());
}

pub fn clear_current(ctx: &ShardCtx) {
    let _ = std::fs::remove_file(ctx.scratch.join("current.json"));
}


// ------------------------------------------------------------------ history minimiser

/// Delta-debugging pass over a failing history (after proptest's own shrinking): drops whole
/// transactions, then chunks of operations, while `fails` keeps holding.
pub fn minimize_history(case: &crate::ops::HistoryCase, fails: &dyn Fn(&crate::ops::HistoryCase) -> bool, budget: usize) -> crate::ops::HistoryCase {
    let mut best = case.clone();
    let mut runs = 0usize;
    let mut try_case = |c: &crate::ops::HistoryCase, runs: &mut usize| -> bool {
        *runs += 1;
        // page ids differ between runs: a candidate counts as failing if any of 3 runs fails
        for _ in 0..3 {
            if fails(c) {
                return true;
            }
        }
        false
    };
    loop {
        let mut progressed = false;
        // whole transactions, last to first (keep at least one)
        let mut i = best.txs.len();
        while i > 0 && runs < budget {
            i -= 1;
            if best.txs.len() <= 1 {
                break;
            }
            let mut c = best.clone();
            c.txs.remove(i);
            if try_case(&c, &mut runs) {
                best = c;
                progressed = true;
            }
        }
        // chunks of ops
        for ti in 0..best.txs.len() {
            let mut chunk = (best.txs[ti].ops.len() / 2).max(1);
            loop {
                let mut start = 0;
                while start < best.txs[ti].ops.len() && runs < budget {
                    let end = (start + chunk).min(best.txs[ti].ops.len());
                    let mut c = best.clone();
                    c.txs[ti].ops.drain(start..end);
                    if try_case(&c, &mut runs) {
                        best = c;
                        progressed = true;
                    } else {
                        start = end;
                    }
                }
                if chunk == 1 {
                    break;
                }
                chunk = (chunk / 2).max(1);
            }
        }
        if best.fresh_handles && runs < budget {
            let mut c = best.clone();
            c.fresh_handles = false;
            if try_case(&c, &mut runs) {
                best = c;
                progressed = true;
            }
        }
        if !progressed || runs >= budget {
            break;
        }
    }
    best
}
