//! E4: cooperative schedule controller. Real threads, one runnable at a time; scheduling
//! decisions are taken at jammdb's instrumented yield points (feature `verif-hooks`) and at
//! harness yield points. A schedule (sequence of chosen thread ids) is the generated input.

use std::sync::atomic::{AtomicBool, Ordering};
use std::sync::{Arc, Condvar, Mutex};
use std::time::{Duration, Instant};

#[derive(Clone, Debug, PartialEq, Eq)]
pub enum TStatus {
    NotStarted,
    /// parked at a yield point, can run
    Ready,
    /// parked in before_lock: needs a probe to know whether it can run
    Blocked(&'static str),
    Running,
    Finished,
    /// did not reach a yield point for a long time while holding the baton (uninstrumented blocking)
    Stuck,
}

#[derive(Clone, Debug)]
pub struct Decision {
    pub chosen: usize,
    pub enabled: Vec<usize>,
    /// thread that was running before this decision and could have continued
    pub prev_enabled: Option<usize>,
    pub at: &'static str,
}

#[derive(Clone, Debug, PartialEq, Eq)]
pub enum Outcome {
    Completed,
    Deadlock(String),
    Diverged(String),
    StepLimit,
    Stuck(String),
}

#[derive(Clone, Debug)]
pub enum Strategy {
    /// follow the plan, then keep running the current thread (lowest id when it cannot continue)
    NoPreempt,
    /// follow the plan, then choose uniformly at random
    Random(u64),
    /// follow the plan, then PCT: random priorities with `d` priority change points
    Pct { seed: u64, depth: usize, est_len: usize },
}

struct State {
    status: Vec<TStatus>,
    at: Vec<&'static str>,
    current: Option<usize>,
    free_run: bool,
    plan: Vec<usize>,
    strategy: Strategy,
    trace: Vec<Decision>,
    steps: usize,
    step_limit: usize,
    outcome: Option<Outcome>,
    probe: Option<usize>,
    probe_result: Option<bool>,
    last_progress: Instant,
    rng: u64,
    prio: Vec<u64>,
    change_points: Vec<usize>,
    /// events for oracles: (thread, kind) when a thread reports itself blocked
    pub blocked_log: Vec<(usize, &'static str, bool)>,
    stuck: Option<(usize, bool)>,
    yield_at_locks: bool,
}

pub struct Inner {
    m: Mutex<State>,
    cv: Condvar,
    pub abort: AtomicBool,
}

fn next_rand(x: &mut u64) -> u64 {
    *x = x.wrapping_add(0x9E3779B97F4A7C15);
    let mut z = *x;
    z = (z ^ (z >> 30)).wrapping_mul(0xBF58476D1CE4E5B9);
    z = (z ^ (z >> 27)).wrapping_mul(0x94D049BB133111EB);
    z ^ (z >> 31)
}

enum Wake {
    Run,
    Probe,
    Free,
}

impl Inner {
    fn wait_turn(self: &Arc<Self>, me: usize) -> Wake {
        let mut st = self.m.lock().unwrap();
        loop {
            if st.free_run {
                return Wake::Free;
            }
            if st.probe == Some(me) {
                return Wake::Probe;
            }
            if st.current == Some(me) && st.status[me] == TStatus::Running {
                return Wake::Run;
            }
            st = self.cv.wait(st).unwrap();
        }
    }

    /// Called by thread `me` (which holds the baton): parks it with `me_status` and hands the baton on.
    fn park(self: &Arc<Self>, me: usize, me_status: TStatus, at: &'static str) -> bool {
        let mut st = self.m.lock().unwrap();
        if st.free_run {
            return false;
        }
        st.status[me] = me_status;
        st.at[me] = at;
        let st = self.schedule(st, Some(me), at);
        drop(st);
        true
    }

    /// Picks the next thread. The caller holds the baton (nobody else is running).
    fn schedule<'a>(self: &'a Arc<Self>, mut st: std::sync::MutexGuard<'a, State>, prev: Option<usize>, at: &'static str) -> std::sync::MutexGuard<'a, State> {
        st.current = None;
        st.last_progress = Instant::now();
        if st.outcome.is_some() || st.free_run {
            return st;
        }
        if st.steps >= st.step_limit {
            self.finish(&mut st, Outcome::StepLimit);
            return st;
        }
        // enabled set: Ready threads, plus Blocked threads whose lock is available now
        let n = st.status.len();
        let mut enabled: Vec<usize> = Vec::new();
        for t in 0..n {
            match st.status[t] {
                TStatus::Ready | TStatus::NotStarted => enabled.push(t),
                TStatus::Blocked(_) => {
                    if Some(t) == prev {
                        // it has just failed to take its lock and nobody ran since
                        continue;
                    }
                    // probe: the thread evaluates its try-lock (no side effects) and reports
                    st.probe = Some(t);
                    st.probe_result = None;
                    self.cv.notify_all();
                    let deadline = Instant::now() + Duration::from_secs(10);
                    while st.probe_result.is_none() && Instant::now() < deadline {
                        let (g, _) = self.cv.wait_timeout(st, Duration::from_millis(100)).unwrap();
                        st = g;
                    }
                    let ok = st.probe_result.take().unwrap_or(false);
                    st.probe = None;
                    if ok {
                        enabled.push(t);
                    }
                }
                _ => {}
            }
        }
        if enabled.is_empty() {
            let unfinished: Vec<String> = (0..n)
                .filter(|t| st.status[*t] != TStatus::Finished)
                .map(|t| format!("thread {} {:?} at {}", t, st.status[t], st.at[t]))
                .collect();
            if unfinished.is_empty() {
                self.finish(&mut st, Outcome::Completed);
            } else {
                self.finish(&mut st, Outcome::Deadlock(unfinished.join("; ")));
            }
            return st;
        }
        let prev_enabled = prev.filter(|p| enabled.contains(p));
        let k = st.trace.len();
        let chosen = if k < st.plan.len() {
            let c = st.plan[k];
            if !enabled.contains(&c) {
                let msg = format!("decision {}: planned thread {} not enabled (enabled {:?})", k, c, enabled);
                self.finish(&mut st, Outcome::Diverged(msg));
                return st;
            }
            c
        } else {
            match st.strategy.clone() {
                Strategy::NoPreempt => prev_enabled.unwrap_or(enabled[0]),
                Strategy::Random(_) => {
                    let r = next_rand(&mut st.rng);
                    enabled[(r % enabled.len() as u64) as usize]
                }
                Strategy::Pct { .. } => {
                    if st.change_points.contains(&k) {
                        // lower the priority of the thread that would run
                        let top = *enabled.iter().max_by_key(|t| st.prio[**t]).unwrap();
                        st.prio[top] = (k as u64) % 7;
                    }
                    *enabled.iter().max_by_key(|t| st.prio[**t]).unwrap()
                }
            }
        };
        st.trace.push(Decision { chosen, enabled, prev_enabled, at });
        st.steps += 1;
        st.status[chosen] = TStatus::Running;
        st.current = Some(chosen);
        st.last_progress = Instant::now();
        self.cv.notify_all();
        st
    }

    fn finish(self: &Arc<Self>, st: &mut std::sync::MutexGuard<State>, o: Outcome) {
        if st.outcome.is_none() {
            st.outcome = Some(o);
        }
        // let every parked thread run to completion on its own
        st.free_run = true;
        self.cv.notify_all();
    }
}

/// Handle given to each scenario thread.
#[derive(Clone)]
pub struct ThreadCtx {
    pub id: usize,
    inner: Arc<Inner>,
}

impl ThreadCtx {
    /// Harness-level yield point.
    pub fn yield_now(&self, name: &'static str) {
        yield_impl(&self.inner, self.id, name);
    }
    pub fn aborted(&self) -> bool {
        self.inner.abort.load(Ordering::Relaxed)
    }
    /// Requests the end of controlled scheduling (an oracle failed): everything free-runs.
    pub fn fail_fast(&self) {
        let mut st = self.inner.m.lock().unwrap();
        st.free_run = true;
        self.inner.abort.store(true, Ordering::Relaxed);
        self.inner.cv.notify_all();
    }

    fn install_hooks(&self) {
        let me = self.id;
        let i1 = self.inner.clone();
        let i2 = self.inner.clone();
        jammdb::verif_hooks::install(jammdb::verif_hooks::Hooks {
            yield_point: Box::new(move |name| yield_impl(&i1, me, name)),
            before_lock: Box::new(move |kind, try_fn| {
                let at_locks = { let st = i2.m.lock().unwrap(); st.yield_at_locks && !st.free_run };
                if at_locks {
                    let name: &'static str = match kind {
                        "file" => "lock:file",
                        "mmap_read" => "lock:mmap_read",
                        "mmap_write" => "lock:mmap_write",
                        "data" => "lock:data",
                        "freelist" => "lock:freelist",
                        "open_ro_txs" => "lock:open_ro_txs",
                        _ => "lock:other",
                    };
                    yield_impl(&i2, me, name);
                }
                loop {
                if i2.m.lock().unwrap().free_run {
                    return;
                }
                // std's RwLock (futex implementation) prefers writers: a new reader waits while
                // a writer is queued. Under the controller a writer "queued" for the map lock is
                // parked here as Blocked("mmap_write") and never really queued, so the rule is
                // applied by the controller: a reader of the map lock counts as blocked while
                // another thread waits to write-lock it.
                let writer_queued = |st: &State| kind == "mmap_read" && (0..st.status.len()).any(|t| t != me && st.status[t] == TStatus::Blocked("mmap_write"));
                if try_fn() && !writer_queued(&i2.m.lock().unwrap()) {
                    return;
                }
                {
                    let mut st = i2.m.lock().unwrap();
                    // is every other thread parked at a harness-level yield point (names "h:...") or not running?
                    let n = st.status.len();
                    let others_idle = (0..n).filter(|t| *t != me).all(|t| match st.status[t] {
                        TStatus::Finished | TStatus::NotStarted => true,
                        TStatus::Ready => st.at[t].starts_with("h:"),
                        _ => false,
                    });
                    st.blocked_log.push((me, kind, others_idle));
                }
                if !i2.park(me, TStatus::Blocked(kind), kind) {
                    return;
                }
                loop {
                    match i2.wait_turn(me) {
                        Wake::Free => return,
                        Wake::Run => break,
                        Wake::Probe => {
                            let ok = try_fn();
                            let mut st = i2.m.lock().unwrap();
                            let ok = ok && !writer_queued(&st);
                            st.probe_result = Some(ok);
                            st.probe = None;
                            i2.cv.notify_all();
                        }
                    }
                }
                // we hold the baton: the probe said the lock is free and nobody ran since
                }
            }),
        });
    }
}

fn yield_impl(inner: &Arc<Inner>, me: usize, name: &'static str) {
    if !inner.park(me, TStatus::Ready, name) {
        return;
    }
    loop {
        match inner.wait_turn(me) {
            Wake::Free | Wake::Run => return,
            Wake::Probe => {
                // Ready threads are never probed; answer defensively
                let mut st = inner.m.lock().unwrap();
                st.probe_result = Some(true);
                st.probe = None;
                inner.cv.notify_all();
            }
        }
    }
}

pub struct ExecResult {
    pub trace: Vec<Decision>,
    pub outcome: Outcome,
    /// (thread, lock kind, every other thread was parked outside jammdb at that moment)
    pub blocked_log: Vec<(usize, &'static str, bool)>,
    /// threads that could not be joined (left behind, blocked for real)
    pub leaked: usize,
    pub statuses: Vec<String>,
    /// (thread, every other thread parked outside jammdb) when the watchdog fired
    pub stuck: Option<(usize, bool)>,
}

pub type ThreadFn = Box<dyn FnOnce(ThreadCtx) + Send + 'static>;

/// Runs one execution of the scenario under the given plan / strategy.
pub fn execute(threads: Vec<ThreadFn>, plan: &[usize], strategy: Strategy, step_limit: usize) -> ExecResult {
    execute_opts(threads, plan, strategy, step_limit, false)
}

/// `yield_at_locks`: every lock acquisition jammdb announces is a scheduling point of its own,
/// also when the lock is free (a thread can be preempted between two short critical sections).
pub fn execute_opts(threads: Vec<ThreadFn>, plan: &[usize], strategy: Strategy, step_limit: usize, yield_at_locks: bool) -> ExecResult {
    let n = threads.len();
    let (seed, prio, change_points) = match &strategy {
        Strategy::Random(s) => (*s, vec![0; n], vec![]),
        Strategy::Pct { seed, depth, est_len } => {
            let mut r = *seed;
            let prio: Vec<u64> = (0..n).map(|_| 1000 + next_rand(&mut r) % 1000).collect();
            let cps: Vec<usize> = (0..*depth).map(|_| plan.len() + (next_rand(&mut r) % (*est_len).max(1) as u64) as usize).collect();
            (r, prio, cps)
        }
        Strategy::NoPreempt => (0, vec![0; n], vec![]),
    };
    let inner = Arc::new(Inner {
        m: Mutex::new(State {
            status: vec![TStatus::NotStarted; n],
            at: vec!["<start>"; n],
            current: None,
            free_run: false,
            plan: plan.to_vec(),
            strategy,
            trace: Vec::new(),
            steps: 0,
            step_limit,
            outcome: None,
            probe: None,
            probe_result: None,
            last_progress: Instant::now(),
            rng: seed,
            prio,
            change_points,
            blocked_log: Vec::new(),
            yield_at_locks,
            stuck: None,
        }),
        cv: Condvar::new(),
        abort: AtomicBool::new(false),
    });
    let mut handles = Vec::new();
    let done: Arc<Vec<AtomicBool>> = Arc::new((0..n).map(|_| AtomicBool::new(false)).collect());
    for (id, f) in threads.into_iter().enumerate() {
        let ctx = ThreadCtx { id, inner: inner.clone() };
        let done = done.clone();
        let h = std::thread::Builder::new()
            .name(format!("jv-sched-{}", id))
            .spawn(move || {
                ctx.install_hooks();
                // wait for the first baton
                loop {
                    match ctx.inner.wait_turn(ctx.id) {
                        Wake::Free | Wake::Run => break,
                        Wake::Probe => {
                            let mut st = ctx.inner.m.lock().unwrap();
                            st.probe_result = Some(true);
                            st.probe = None;
                            ctx.inner.cv.notify_all();
                        }
                    }
                }
                let c2 = ctx.clone();
                let r = std::panic::catch_unwind(std::panic::AssertUnwindSafe(move || f(c2)));
                jammdb::verif_hooks::uninstall();
                let _ = r;
                // finished: hand the baton on
                let mut st = ctx.inner.m.lock().unwrap();
                st.status[ctx.id] = TStatus::Finished;
                st.at[ctx.id] = "<finished>";
                done[ctx.id].store(true, Ordering::SeqCst);
                if !st.free_run {
                    let st = ctx.inner.schedule(st, None, "<thread finished>");
                    drop(st);
                } else {
                    ctx.inner.cv.notify_all();
                }
            })
            .expect("spawn");
        handles.push(h);
    }
    // kick off: the main thread takes the first decision
    {
        let st = inner.m.lock().unwrap();
        let st = inner.schedule(st, None, "<start>");
        drop(st);
    }
    // wait for completion, acting as watchdog for uninstrumented blocking
    let t0 = Instant::now();
    let mut free_since: Option<Instant> = None;
    loop {
        if done.iter().all(|d| d.load(Ordering::SeqCst)) {
            break;
        }
        std::thread::sleep(Duration::from_micros(100));
        let mut st = inner.m.lock().unwrap();
        if st.outcome.is_none() && !st.free_run && st.last_progress.elapsed() > Duration::from_secs(8) {
            let who = st.current;
            let at = who.map(|c| st.at[c]).unwrap_or("?");
            let n = st.status.len();
            let others_idle = (0..n).filter(|t| Some(*t) != who).all(|t| match st.status[t] {
                TStatus::Finished | TStatus::NotStarted => true,
                TStatus::Ready => st.at[t].starts_with("h:"),
                _ => false,
            });
            st.stuck = who.map(|w| (w, others_idle));
            st.outcome = Some(Outcome::Stuck(format!("thread {:?} did not reach a yield point for 8 s after {} (blocking the controller cannot see; every other thread parked outside jammdb: {})", who, at, others_idle)));
            st.free_run = true;
            inner.cv.notify_all();
        }
        if st.free_run && free_since.is_none() {
            free_since = Some(Instant::now());
        }
        drop(st);
        if let Some(f) = free_since {
            if f.elapsed() > Duration::from_secs(15) {
                break;
            }
        }
        if t0.elapsed() > Duration::from_secs(90) {
            let mut st = inner.m.lock().unwrap();
            if st.outcome.is_none() {
                st.outcome = Some(Outcome::Stuck("execution did not finish within 90 s".into()));
            }
            st.free_run = true;
            inner.cv.notify_all();
        }
    }
    let mut leaked = 0;
    for (i, h) in handles.into_iter().enumerate() {
        if done[i].load(Ordering::SeqCst) {
            let _ = h.join();
        } else {
            leaked += 1; // detached
        }
    }
    let st = inner.m.lock().unwrap();
    let outcome = st.outcome.clone().unwrap_or_else(|| {
        if leaked > 0 {
            Outcome::Stuck("threads left blocked after free-run".into())
        } else {
            Outcome::Completed
        }
    });
    ExecResult {
        trace: st.trace.clone(),
        outcome,
        blocked_log: st.blocked_log.clone(),
        leaked,
        statuses: (0..n).map(|t| format!("{:?}@{}", st.status[t], st.at[t])).collect(),
        stuck: st.stuck,
    }
}

/// Number of preemptions in a trace prefix extended by choosing `alt` at position k.
fn preemptions(trace: &[Decision], upto: usize) -> usize {
    trace[..upto].iter().filter(|d| d.prev_enabled.is_some() && d.prev_enabled != Some(d.chosen)).count()
}

pub struct DfsStats {
    pub executions: u64,
    pub complete: bool,
    pub diverged: u64,
    pub max_trace: usize,
}

/// Depth-first enumeration of all schedules with at most `bound` preemptions by re-execution.
/// `run(plan)` executes the scenario following `plan` and then the no-preemption default, checks
/// its oracles and returns the trace and whether to continue.
pub fn dfs(bound: usize, max_execs: u64, mut run: impl FnMut(&[usize]) -> (Vec<Decision>, bool)) -> DfsStats {
    let mut stats = DfsStats { executions: 0, complete: false, diverged: 0, max_trace: 0 };
    let mut plan: Vec<usize> = Vec::new();
    // for each depth of the current path: the alternatives not yet explored
    let mut todo: Vec<Vec<usize>> = Vec::new();
    loop {
        let (trace, keep_going) = run(&plan);
        stats.executions += 1;
        stats.max_trace = stats.max_trace.max(trace.len());
        if !keep_going {
            return stats;
        }
        if trace.len() < plan.len() {
            // the plan could not be followed to its end (divergence): drop the unexplored tail
            stats.diverged += 1;
        }
        todo.truncate(trace.len());
        let base = todo.len();
        for k in base..trace.len() {
            let d = &trace[k];
            let used = preemptions(&trace, k);
            let mut alts = Vec::new();
            for &t in &d.enabled {
                if t == d.chosen {
                    continue;
                }
                let cost = if d.prev_enabled.is_some() && d.prev_enabled != Some(t) { 1 } else { 0 };
                if used + cost <= bound {
                    alts.push(t);
                }
            }
            todo.push(alts);
        }
        let mut path: Vec<usize> = trace.iter().map(|d| d.chosen).collect();
        loop {
            match todo.last_mut() {
                None => {
                    stats.complete = true;
                    return stats;
                }
                Some(alts) => {
                    if let Some(a) = alts.pop() {
                        let k = todo.len() - 1;
                        path.truncate(k);
                        path.push(a);
                        plan = path.clone();
                        break;
                    } else {
                        todo.pop();
                        path.truncate(todo.len());
                    }
                }
            }
        }
        if stats.executions >= max_execs {
            return stats;
        }
    }
}
