//! Shape-subset enumerator: committed one-/two-/three-level (and mixed) buckets, then one
//! transaction deleting subset D, inserting subset I of interleaved keys and touching subset T
//! of sub-buckets. Emits ordinary `HistoryCase`s so the one interpreter runs them.

use crate::ops::*;

#[derive(Clone, Copy, Debug, PartialEq, Eq)]
pub enum ShapeKind {
    /// short keys, quarter-page values: two levels with ~2 keys per leaf
    TwoLevel,
    /// 200-byte keys: three levels with a dozen keys
    ThreeLevel,
    /// key/value pairs alternating with sub-buckets
    Mixed,
    /// small values: single leaf
    OneLevel,
}

pub const ALL_KINDS: [ShapeKind; 4] = [ShapeKind::TwoLevel, ShapeKind::ThreeLevel, ShapeKind::Mixed, ShapeKind::OneLevel];

fn key(kind: ShapeKind, slot: usize) -> Vec<u8> {
    // slot = 2*i for base keys, 2*i+1 for interleaved inserts
    let s = format!("k{:03}", slot);
    match kind {
        ShapeKind::ThreeLevel => {
            let mut k = s.into_bytes();
            while k.len() < 200 {
                k.push(b'_');
            }
            k
        }
        _ => s.into_bytes(),
    }
}

fn vlen(kind: ShapeKind) -> u32 {
    match kind {
        ShapeKind::TwoLevel | ShapeKind::Mixed => 250,
        ShapeKind::ThreeLevel => 100,
        ShapeKind::OneLevel => 8,
    }
}

fn is_bucket_slot(kind: ShapeKind, i: usize) -> bool {
    kind == ShapeKind::Mixed && i % 2 == 1
}

/// Builds the case. `del`/`ins`/`touch` are bit masks over the k base entries.
/// `variant`: bit 0 = reopen between the two transactions, bit 1 = read sub-buckets (scan) before
/// modifying, bit 2 = third transaction re-inserting deleted keys.
pub fn shape_case(kind: ShapeKind, k: usize, del: u32, ins: u32, touch: u32, variant: u8) -> HistoryCase {
    let bname = b"s".to_vec();
    let mut t1 = vec![Op::GetOrCreate {
        b: 0,
        k: KeySel::Lit(bname.clone()),
        kk: 2,
    }];
    // kv ops: selector 0 = first non-root path = "/s"; bucket ops: ROOT_SEL = first non-root path
    for i in 0..k {
        if is_bucket_slot(kind, i) {
            t1.push(Op::CreateBucket {
                b: ROOT_SEL,
                k: KeySel::Lit(key(kind, 2 * i)),
                kk: 2,
            });
        } else {
            t1.push(Op::Put {
                b: 0,
                k: KeySel::Lit(key(kind, 2 * i)),
                v: ValSel::Fill {
                    len: vlen(kind),
                    seed: i as u8,
                },
                kk: 2,
                vk: 2,
            });
        }
    }
    let mut txs = vec![TxSpec {
        kind: TxKind::Commit,
        ops: t1,
    }];
    if kind == ShapeKind::Mixed {
        // give every sub-bucket one entry in a second transaction
        let mut t = Vec::new();
        for i in 0..k {
            if is_bucket_slot(kind, i) {
                t.push(Op::Put {
                    b: sub_index(kind, k, i),
                    k: KeySel::Lit(b"x".to_vec()),
                    v: ValSel::Lit(vec![i as u8]),
                    kk: 2,
                    vk: 2,
                });
            }
        }
        txs.push(TxSpec {
            kind: TxKind::Commit,
            ops: t,
        });
    }
    if variant & 1 != 0 {
        txs.push(TxSpec {
            kind: TxKind::Reopen,
            ops: vec![],
        });
    }
    let mut t2 = Vec::new();
    if variant & 2 != 0 {
        t2.push(Op::Scan { b: 0, extra: 1 });
    }
    for i in 0..k {
        if touch & (1 << i) != 0 && is_bucket_slot(kind, i) && del & (1 << i) == 0 {
            t2.push(Op::Put {
                b: sub_index(kind, k, i),
                k: KeySel::Lit(b"y".to_vec()),
                v: ValSel::Lit(vec![1]),
                kk: 2,
                vk: 2,
            });
        }
    }
    for i in 0..k {
        if del & (1 << i) != 0 {
            if is_bucket_slot(kind, i) {
                t2.push(Op::DeleteBucket {
                    b: ROOT_SEL,
                    k: KeySel::Lit(key(kind, 2 * i)),
                    kk: 2,
                });
            } else {
                t2.push(Op::Delete {
                    b: 0,
                    k: KeySel::Lit(key(kind, 2 * i)),
                });
            }
        }
    }
    for i in 0..k {
        if ins & (1 << i) != 0 {
            t2.push(Op::Put {
                b: 0,
                k: KeySel::Lit(key(kind, 2 * i + 1)),
                v: ValSel::Fill {
                    len: vlen(kind),
                    seed: 100 + i as u8,
                },
                kk: 2,
                vk: 2,
            });
        }
    }
    txs.push(TxSpec {
        kind: TxKind::Commit,
        ops: t2,
    });
    if variant & 4 != 0 {
        let mut t3 = Vec::new();
        for i in 0..k {
            if del & (1 << i) != 0 && !is_bucket_slot(kind, i) {
                t3.push(Op::Put {
                    b: 0,
                    k: KeySel::Lit(key(kind, 2 * i)),
                    v: ValSel::Lit(b"again".to_vec()),
                    kk: 2,
                    vk: 2,
                });
            }
        }
        t3.push(Op::Scan { b: 0, extra: 2 });
        txs.push(TxSpec {
            kind: TxKind::Commit,
            ops: t3,
        });
    }
    HistoryCase {
        cfg: Cfg::default(),
        fresh_handles: false,
        txs,
        dance: 0,
    }
}

/// Selector of sub-bucket i among the non-root bucket paths: paths are
/// ["/s", "/s/k002", "/s/k006", ...] in key order, so sub-bucket i (odd) is at 1 + i/2.
fn sub_index(kind: ShapeKind, k: usize, i: usize) -> u16 {
    debug_assert!(is_bucket_slot(kind, i));
    let n_sub = k / 2;
    sel_for(1 + i / 2, 1 + n_sub)
}
