//! Worker processes (run under the I/O shim): `jv worker <mode> <case.json> <db> <out.json>`.

use crate::interp::*;
use crate::ops::*;
use std::path::PathBuf;

pub fn main(args: &[String]) -> i32 {
    if args.len() < 4 {
        eprintln!("usage: jv worker <crash|fault> <case.json> <db> <out.json>");
        return 2;
    }
    match args[0].as_str() {
        "crash" => crash(&args[1], &args[2], &args[3]),
        "fault" => crate::checks::c11::worker(&args[1], &args[2], &args[3]),
        "proc" => crate::checks::c13::worker(args),
        _ => 2,
    }
}

/// Executes a history with markers around every commit and no verification I/O;
/// writes the model after every commit to `out`.
fn crash(casef: &str, db: &str, out: &str) -> i32 {
    let case: HistoryCase = match std::fs::read_to_string(casef).ok().and_then(|s| serde_json::from_str(&s).ok()) {
        Some(c) => c,
        None => return 2,
    };
    let mut opts = RunOpts::standard(PathBuf::from(db));
    opts.fsck_after_commit = false;
    opts.dbcheck_after_commit = false;
    opts.dump_after_commit = false;
    opts.final_reopen = false;
    opts.keep_file = true;
    opts.markers = true;
    opts.reader_dance = std::env::var("JV_READER_DANCE").ok().and_then(|v| v.parse().ok()).unwrap_or(0);
    opts.legacy_at = std::env::var("JV_LEGACY_AT").ok().and_then(|v| v.parse().ok());
    let o = run_history(&case, &opts);
    let models: Vec<serde_json::Value> = o.commit_models.iter().map(|m| m.to_value()).collect();
    let _ = std::fs::write(out, serde_json::to_string(&models).unwrap_or_default());
    match o.result {
        Ok(()) => 0,
        Err(f) => {
            println!("{}", f.line());
            3
        }
    }
}
