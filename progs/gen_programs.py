#!/usr/bin/env python3
"""E6: client-program generator and rustc / probe driver for C14.

Builds small client programs (hand-written corpus per (type, escape route), programs generated
from the public API surface in rustdoc JSON, positive controls), compiles each against the
libjammdb rlib that the harness build produced from /repo, and — if an escape program compiles —
links and runs it in a probe that ends the transaction, churns the database (grow + remap, reuse
of every freed page) and re-reads the escaped bytes.
"""
import argparse, concurrent.futures, glob, hashlib, json, os, shutil, subprocess, sys, tempfile

BORROW_CODES = {"E0597", "E0505", "E0515", "E0716", "E0499", "E0502", "E0521", "E0373", "E0310",
                "E0477", "E0700", "E0506", "E0713", "E0712", "E0596", "E0621", "E0623", "E0495", "E0759", "E0594"}
BORROW_MSGS = ("lifetime may not live long enough", "does not live long enough", "borrowed data escapes",
               "captures lifetime", "may outlive")
SEND_MSGS = ("cannot be sent between threads", "cannot be shared between threads", "`Send`", "`Sync`")

PRELUDE = r'''
#![allow(unused, unused_mut, unused_variables, dead_code)]
use jammdb::*;
fn setup() -> DB {
    let _ = std::fs::remove_file("probe.db");
    let db = OpenOptions::new().pagesize(1024).num_pages(8).open("probe.db").unwrap();
    {
        let tx = db.tx(true).unwrap();
        let b = tx.create_bucket("b").unwrap();
        b.put("k", "value-of-k-0123456789").unwrap();
        let s = b.create_bucket("sub-bucket-name-0123456789").unwrap();
        s.put("x", "y").unwrap();
        for i in 0..20 { b.put(format!("key{:03}", i), vec![b'v'; 100]).unwrap(); }
        tx.commit().unwrap();
    }
    db
}
// commits that free and reuse every page of the state above, and grow (remap) the file
fn churn(db: &DB) {
    // if a new write transaction cannot start, something that should have ended is still alive
    std::thread::spawn(|| { std::thread::sleep(std::time::Duration::from_secs(20)); eprintln!("HUNG: a write transaction could not start within 20 s"); std::process::exit(77); });
    for round in 0..6usize {
        let tx = db.tx(true).unwrap();
        {
            let b = tx.get_or_create_bucket("b").unwrap();
            for i in 0..20 { b.put(format!("key{:03}", i), vec![b'a' + round as u8; 100 + round * 10]).unwrap(); }
            if round == 1 { b.put("huge", vec![7u8; 9_000_000]).unwrap(); }
            if round == 2 { let _ = b.delete("huge"); let _ = b.delete_bucket("sub-bucket-name-0123456789"); let _ = b.delete("k"); }
            if round == 3 { b.put("k", "another-value").unwrap(); }
        }
        tx.commit().unwrap();
    }
}
'''
HELPERS_BYTES = r'''
fn bytes_of<T: AsRef<[u8]>>(t: &T) -> Vec<u8> { t.as_ref().to_vec() }
fn check<T: AsRef<[u8]>>(t: &T, c: &[u8]) { let now = t.as_ref().to_vec(); assert!(now == c, "escaped bytes changed"); }
'''
HELPERS_PROBE = r'''
// reads the bytes a value exposes through the public accessors
trait Probe { fn pb(&self) -> Vec<u8>; }
impl<'b, 'tx> Probe for KVPair<'b, 'tx> { fn pb(&self) -> Vec<u8> { let mut v = self.key().to_vec(); v.extend_from_slice(self.value()); v } }
impl<'b, 'tx> Probe for Data<'b, 'tx> { fn pb(&self) -> Vec<u8> { let mut v = self.key().to_vec(); if self.is_kv() { v.extend_from_slice(self.kv().value()); } v } }
impl<'b, 'tx> Probe for BucketName<'b, 'tx> { fn pb(&self) -> Vec<u8> { self.name().to_vec() } }
impl Probe for [u8] { fn pb(&self) -> Vec<u8> { self.to_vec() } }
impl<T: Probe + ?Sized> Probe for &T { fn pb(&self) -> Vec<u8> { (**self).pb() } }
impl<T: Probe> Probe for Option<T> { fn pb(&self) -> Vec<u8> { match self { Some(x) => x.pb(), None => Vec::new() } } }
impl<T: Probe, E> Probe for Result<T, E> { fn pb(&self) -> Vec<u8> { match self { Ok(x) => x.pb(), Err(_) => Vec::new() } } }
impl<T: Probe> Probe for Vec<T> { fn pb(&self) -> Vec<u8> { let mut v = Vec::new(); for x in self { v.extend(x.pb()); } v } }
impl<T: Probe> Probe for Box<T> { fn pb(&self) -> Vec<u8> { (**self).pb() } }
impl<T: Probe, U> Probe for (T, U) { fn pb(&self) -> Vec<u8> { self.0.pb() } }
fn bytes_of<T: Probe>(t: &T) -> Vec<u8> { t.pb() }
fn check<T: Probe>(t: &T, c: &[u8]) { let now = t.pb(); assert!(now == c, "escaped bytes changed"); }
'''
HELPERS_SIZED = r'''
fn bytes_of<T>(_t: &T) -> Vec<u8> { Vec::new() }
fn check<T>(t: &T, _c: &[u8]) { let _ = t; }
'''

LONG_CONSTS = (
    'const KLONG: &str = "' + "k" * 300 + '";\n'
    'const NLONG: &str = "' + "sub-bucket-name-" + "n" * 284 + '";\n'
    'const VLONG: &str = "' + "value-of-k-" + "v" * 2989 + '";\n'
)

def longify(src):
    """The same program over long keys / names / values (textual substitution of the literals)."""
    out = src.replace('"sub-bucket-name-0123456789"', "NLONG").replace('"value-of-k-0123456789"', "VLONG").replace('"k"', "KLONG")
    return out.replace("use jammdb::*;\n", "use jammdb::*;\n" + LONG_CONSTS, 1)

B = 'let b = tx.get_bucket("b").unwrap(); '

def route_program(route, pre, expr, keep, bufdecl=None):
    """keep = 'bytes' | 'sized'"""
    helpers = {"bytes": HELPERS_BYTES, "probe": HELPERS_PROBE, "sized": HELPERS_SIZED}[keep]
    keep_bound = {"bytes": "AsRef<[u8]>", "probe": "Probe", "sized": "Sized"}[keep]
    if route == "scope":
        body = f'''fn main() {{
    let db = setup();
    let esc; let copy;
    {{ let tx = db.tx(true).unwrap(); {pre} esc = {expr}; copy = bytes_of(&esc); }}
    churn(&db); check(&esc, &copy);
}}'''
    elif route == "commit":
        body = f'''fn main() {{
    let db = setup();
    let tx = db.tx(true).unwrap(); {pre} let esc = {expr}; let copy = bytes_of(&esc);
    tx.commit().unwrap(); churn(&db); check(&esc, &copy);
}}'''
    elif route == "return":
        body = f'''fn grab(db: &DB) -> impl {keep_bound} + '_ {{ let tx = db.tx(true).unwrap(); {pre} {expr} }}
fn main() {{
    let db = setup();
    let esc = grab(&db); let copy = bytes_of(&esc);
    churn(&db); check(&esc, &copy);
}}'''
    elif route == "store":
        body = f'''fn main() {{
    let db = setup();
    let mut holder = Vec::new(); let mut copies: Vec<Vec<u8>> = Vec::new();
    {{ let tx = db.tx(true).unwrap(); {pre} let v = {expr}; copies.push(bytes_of(&v)); holder.push(v); }}
    churn(&db);
    for (v, c) in holder.iter().zip(copies.iter()) {{ check(v, c); }}
}}'''
    elif route == "spawn":
        body = f'''fn main() {{
    let db = setup();
    let tx = db.tx(true).unwrap(); {pre} let esc = {expr};
    let h = std::thread::spawn(move || {{ let _x = &esc; }});
    h.join().unwrap();
}}'''
    elif route == "scoped":
        body = f'''fn main() {{
    let db = setup();
    let tx = db.tx(true).unwrap(); {pre} let esc = {expr};
    std::thread::scope(|s| {{ s.spawn(|| {{ let _x = &esc; }}); }});
}}'''
    elif route == "shortbuf":
        # a key / value / name buffer that dies before the transaction is committed; if the library
        # accepts it, it must have copied it: the freed memory is overwritten before the commit
        body = f'''fn main() {{
    let db = setup();
    let tx = db.tx(true).unwrap(); {pre}
    {{ {bufdecl or 'let buf = String::from("short-lived-buffer-0123456789-abcdefghij");'} let _ = {expr}; }}
    let mut junk = Vec::new();
    for i in 0..64 {{ junk.push(format!("OVERWRITTEN-OVERWRITTEN-OVERWRITTEN-{{:04}}", i)); }}
    tx.commit().unwrap();
    let tx = db.tx(false).unwrap();
    fn walk(b: &Bucket, bad: &mut bool) {{
        for d in b.cursor() {{
            if d.key().starts_with(b"OVERWRITTEN") {{ *bad = true; }}
            if let Data::KeyValue(kv) = &d {{ if kv.value().starts_with(b"OVERWRITTEN") {{ *bad = true; }} }}
            if let Data::Bucket(n) = &d {{ walk(&b.get_bucket(n).unwrap(), bad); }}
        }}
    }}
    let mut bad = false;
    for (n, b) in tx.buckets() {{ if n.name().starts_with(b"OVERWRITTEN") {{ bad = true; }} walk(&b, &mut bad); }}
    assert!(!bad, "a key / value / name buffer that died before commit was read after it was freed");
    drop(junk);
}}'''
    else:
        raise ValueError(route)
    return PRELUDE + helpers + body + "\n"

# producers: how to obtain a value of each public type inside a transaction `tx`
PRODUCERS = {
    "Tx": dict(pre="", recv="tx"),
    "Bucket": dict(pre=B, recv="b"),
    "Cursor": dict(pre=B + 'let mut c = b.cursor(); c.seek("k"); ', recv="c"),
    "Range": dict(pre=B + "let mut r = b.range(..); ", recv="r"),
    "Buckets": dict(pre=B + "let mut it = b.cursor().to_buckets(); ", recv="it"),
    "KVPairs": dict(pre=B + "let mut it = b.cursor().to_kv_pairs(); ", recv="it"),
    "Data": dict(pre=B + 'let d = b.get("k").unwrap(); ', recv="d"),
    "KVPair": dict(pre=B + 'let kv = b.get_kv("k").unwrap(); ', recv="kv"),
    "BucketName": dict(pre=B + "let n = b.buckets().next().unwrap().0; ", recv="n"),
    "Bytes": dict(pre=B + "let n = b.buckets().next().unwrap().0; let by = (&n).to_bytes(); ", recv="by"),
}
NOT_TX_DERIVED = {"DB", "OpenOptions", "Error"}
HANDLE_ROUTES = ["scope", "commit", "return", "store", "spawn", "scoped"]
SLICE_ROUTES = ["scope", "commit", "return", "store"]

def corpus():
    progs = []
    OPAQUE_NAMES = ("Bucket", "Cursor", "Range", "Buckets-iter", "KVPairs-iter", "Tx-buckets-iter", "Bucket-from-iter", "sub-Bucket", "new-Bucket", "goc-Bucket", "IntoIter")
    def add(pid, typ, route, pre, expr, handle=True):
        progs.append(dict(id=pid, origin="corpus", type=typ, route=route, pre=pre, expr=expr, handle=handle,
                          kind="opaque" if typ in OPAQUE_NAMES else "probe"))
    items = [
        ("Bucket", B, "b", True),
        ("Cursor", B, "b.cursor()", True),
        ("Range", B, "b.range(..)", True),
        ("Buckets-iter", B, "b.buckets()", True),
        ("KVPairs-iter", B, "b.kv_pairs()", True),
        ("Tx-buckets-iter", "", "tx.buckets()", True),
        ("Data", B, 'b.get("k").unwrap()', True),
        ("KVPair", B, 'b.get_kv("k").unwrap()', True),
        ("KVPair-from-put", B, 'b.put("k", "new").unwrap().unwrap()', True),
        ("KVPair-from-delete", B, 'b.delete("k").unwrap()', True),
        ("BucketName", B, "b.buckets().next().unwrap().0", True),
        ("Bucket-from-iter", B, "b.buckets().next().unwrap().1", True),
        ("Data-from-cursor", B, "b.cursor().next().unwrap()", True),
        ("Data-current", B + 'let mut c = b.cursor(); c.seek("k"); ', "c.current().unwrap()", True),
        ("KVPair-from-kv_pairs", B, "b.kv_pairs().next().unwrap()", True),
        ("Bytes-from-name", B + "let n = b.buckets().next().unwrap().0; ", "n.to_bytes()", True),
        ("Bytes-from-name-ref", B + "let n = b.buckets().next().unwrap().0; ", "(&n).to_bytes()", True),
        ("slice-kv-key", B + 'let kv = b.get_kv("k").unwrap(); ', "kv.key()", False),
        ("slice-kv-value", B + 'let kv = b.get_kv("k").unwrap(); ', "kv.value()", False),
        ("slice-kv-kv", B + 'let kv = b.get_kv("k").unwrap(); ', "kv.kv().1", False),
        ("slice-name", B + "let n = b.buckets().next().unwrap().0; ", "n.name()", False),
        ("slice-data-key", B + 'let d = b.get("k").unwrap(); ', "d.key()", False),
        ("ref-data-kv", B + 'let d = b.get("k").unwrap(); ', "d.kv().value()", False),
        ("sub-Bucket", B, 'b.get_bucket("sub-bucket-name-0123456789").unwrap()', True),
        ("new-Bucket", B, 'b.create_bucket("fresh").unwrap()', True),
        ("goc-Bucket", "", 'tx.get_or_create_bucket("b").unwrap()', True),
        ("IntoIter", B, "b.into_iter()", True),
    ]
    for name, pre, expr, handle in items:
        for route in (HANDLE_ROUTES if handle else SLICE_ROUTES):
            add(f"corpus/{name}/{route}", name, route, pre, expr, handle)
    # the transaction itself: threads, and past its database
    for route in ("spawn", "scoped"):
        progs.append(dict(id=f"corpus/Tx/{route}", origin="corpus", type="Tx", route=route, pre="", expr="&tx", handle=True, kind="opaque"))
    return progs

SPECIAL = [
    ("special/tx-past-db", "borrow", PRELUDE + r'''
fn main() {
    let tx;
    { let db = setup(); tx = db.tx(true).unwrap(); }
    let _b = tx.get_bucket("b");
}'''),
    ("special/tx-moved-to-thread", "send", PRELUDE + r'''
fn main() {
    let db = setup();
    std::thread::scope(|s| { let tx = db.tx(false).unwrap(); s.spawn(move || { let _ = tx.get_bucket("b"); }); });
}'''),
    ("special/short-key-buffer", "borrow", PRELUDE + r'''
fn main() {
    let db = setup();
    let tx = db.tx(true).unwrap();
    let b = tx.get_bucket("b").unwrap();
    { let k = vec![1u8, 2, 3]; b.put(k.as_slice(), "v").unwrap(); }
    tx.commit().unwrap();
}'''),
    ("special/short-value-buffer", "borrow", PRELUDE + r'''
fn main() {
    let db = setup();
    let tx = db.tx(true).unwrap();
    let b = tx.get_bucket("b").unwrap();
    { let v = String::from("short lived"); b.put("k", v.as_str()).unwrap(); }
    tx.commit().unwrap();
}'''),
    ("special/short-bucket-name-buffer", "borrow", PRELUDE + r'''
fn main() {
    let db = setup();
    let tx = db.tx(true).unwrap();
    { let name = String::from("temp"); let _ = tx.create_bucket(name.as_str()).unwrap(); }
    tx.commit().unwrap();
}'''),
    ("special/key-buffer-outlived-by-commit", "borrow", PRELUDE + r'''
fn main() {
    let db = setup();
    let tx = db.tx(true).unwrap();
    let b = tx.get_bucket("b").unwrap();
    let k = vec![9u8; 4];
    b.put(k.as_slice(), "v").unwrap();
    drop(k);
    tx.commit().unwrap();
}'''),
    ("special/bucket-used-after-commit", "borrow", PRELUDE + r'''
fn main() {
    let db = setup();
    let tx = db.tx(true).unwrap();
    let b = tx.get_bucket("b").unwrap();
    tx.commit().unwrap();
    let _ = b.get("k");
}'''),
    ("special/cursor-used-after-drop", "borrow", PRELUDE + r'''
fn main() {
    let db = setup();
    let tx = db.tx(false).unwrap();
    let b = tx.get_bucket("b").unwrap();
    let mut c = b.cursor();
    drop(tx);
    let _ = c.next();
}'''),
]

CONTROLS = [
    ("control/readme-basic", PRELUDE + r'''
fn main() {
    let db = setup();
    let tx = db.tx(true).unwrap();
    let names = tx.get_or_create_bucket("names").unwrap();
    names.put("Kanan", "Jarrus").unwrap();
    names.put("Ezra", "Bridger").unwrap();
    tx.commit().unwrap();
    let tx = db.tx(false).unwrap();
    let names = tx.get_bucket("names").unwrap();
    let data = names.get("Kanan").unwrap();
    assert_eq!(data.kv().value(), b"Jarrus");
    for d in names.cursor() { let _ = d.key(); }
}'''),
    ("control/clone-db-across-threads", PRELUDE + r'''
fn main() {
    let db = setup();
    let mut hs = Vec::new();
    for i in 0..3u8 {
        let db = db.clone();
        hs.push(std::thread::spawn(move || {
            let tx = db.tx(true).unwrap();
            let b = tx.get_bucket("b").unwrap();
            b.put(vec![b't', i], vec![i; 10]).unwrap();
            tx.commit().unwrap();
        }));
    }
    for h in hs { h.join().unwrap(); }
    let tx = db.tx(false).unwrap();
    assert!(tx.get_bucket("b").unwrap().get([b't', 2u8]).is_some());
}'''),
    ("control/copy-data-out", PRELUDE + r'''
fn main() {
    let db = setup();
    let (k, v, name);
    {
        let tx = db.tx(false).unwrap();
        let b = tx.get_bucket("b").unwrap();
        let kv = b.get_kv("k").unwrap();
        k = kv.key().to_vec(); v = kv.value().to_vec();
        name = b.buckets().next().unwrap().0.name().to_vec();
    }
    churn(&db);
    assert_eq!(k, b"k"); assert_eq!(v, b"value-of-k-0123456789"); assert_eq!(name, b"sub-bucket-name-0123456789");
}'''),
    ("control/owned-keys-outlive-nothing", PRELUDE + r'''
fn main() {
    let db = setup();
    let tx = db.tx(true).unwrap();
    let b = tx.get_bucket("b").unwrap();
    { let k = vec![1u8, 2, 3]; b.put(k, String::from("owned value")).unwrap(); }
    { let k = 7u64.to_be_bytes(); b.put(k, [1u8, 2]).unwrap(); }
    tx.commit().unwrap();
}'''),
    ("control/scoped-readers", PRELUDE + r'''
fn main() {
    let db = setup();
    std::thread::scope(|s| {
        for _ in 0..2 { s.spawn(|| { let tx = db.tx(false).unwrap(); let b = tx.get_bucket("b").unwrap(); assert!(b.get("k").is_some()); }); }
    });
}'''),
    ("control/range-and-seek", PRELUDE + r'''
fn main() {
    let db = setup();
    let tx = db.tx(false).unwrap();
    let b = tx.get_bucket("b").unwrap();
    let lo: &[u8] = b"key005"; let hi: &[u8] = b"key010";
    assert_eq!(b.range(lo..hi).count(), 5);
    let mut c = b.cursor(); assert!(c.seek("key003")); assert_eq!(c.next().unwrap().key(), b"key003");
}'''),
]

# ---------------------------------------------------------------- surface-driven generation

def type_mentions_local(t, idx, depth=0):
    """Does the type mention a crate-local type (other than Error), a reference, a generic or an impl Trait?"""
    if t is None or depth > 8:
        return False
    if isinstance(t, dict):
        for k, v in t.items():
            if k in ("borrowed_ref", "impl_trait", "generic", "qualified_path", "dyn_trait"):
                return True
            if k == "resolved_path":
                it = idx.get(str(v.get("id")))
                if it is not None and it.get("crate_id") == 0 and it.get("name") != "Error":
                    return True
                if type_mentions_local(v.get("args"), idx, depth + 1):
                    return True
            elif type_mentions_local(v, idx, depth + 1):
                return True
    elif isinstance(t, list):
        return any(type_mentions_local(x, idx, depth + 1) for x in t)
    return False

def mentions_handle(t, idx, depth=0):
    if t is None or depth > 8:
        return False
    if isinstance(t, dict):
        for k, v in t.items():
            if k in ("impl_trait", "dyn_trait"):
                return True
            if k == "resolved_path":
                it = idx.get(str(v.get("id")))
                if it is not None and it.get("crate_id") == 0 and it.get("name") != "Error":
                    return True
                if mentions_handle(v.get("args"), idx, depth + 1):
                    return True
            elif mentions_handle(v, idx, depth + 1):
                return True
    elif isinstance(t, list):
        return any(mentions_handle(x, idx, depth + 1) for x in t)
    return False

OPAQUE_TYPES = {"Bucket", "Cursor", "Range", "Buckets", "KVPairs", "Tx"}

def mentions_opaque(t, idx, depth=0):
    """a handle whose contents cannot be read back through accessors: buckets, cursors, iterators"""
    if t is None or depth > 8:
        return False
    if isinstance(t, dict):
        for k, v in t.items():
            if k in ("impl_trait", "dyn_trait"):
                return True
            if k == "resolved_path":
                it = idx.get(str(v.get("id")))
                if it is not None and it.get("crate_id") == 0 and it.get("name") in OPAQUE_TYPES:
                    return True
                if mentions_opaque(v.get("args"), idx, depth + 1):
                    return True
            elif mentions_opaque(v, idx, depth + 1):
                return True
    elif isinstance(t, list):
        return any(mentions_opaque(x, idx, depth + 1) for x in t)
    return False

def synth_arg(name, ty, generics, n):
    """Returns source text for an argument or None."""
    bounds = {}
    for p in generics.get("params", []):
        k = p.get("kind", {})
        if "type" in k:
            bounds[p["name"]] = [b.get("trait_bound", {}).get("trait", {}).get("path") for b in k["type"].get("bounds", [])]
    for w in generics.get("where_predicates", []):
        bp = w.get("bound_predicate")
        if bp and "generic" in bp.get("type", {}):
            bounds.setdefault(bp["type"]["generic"], []).extend(b.get("trait_bound", {}).get("trait", {}).get("path") for b in bp.get("bounds", []))
    if "generic" in ty:
        bs = bounds.get(ty["generic"], [])
        if any(b and b.endswith("ToBytes") for b in bs):
            return ['"k"', '"value-from-program"', '"x"'][min(n, 2)]
        if any(b and b.endswith("AsRef") for b in bs):
            return 'b"k"'
        if any(b and b.endswith("RangeBounds") for b in bs):
            return ".."
        return None
    if "primitive" in ty:
        return {"bool": "false", "u64": "1", "usize": "1", "u8": "1"}.get(ty["primitive"])
    if "borrowed_ref" in ty:
        inner = ty["borrowed_ref"]["type"]
        if "slice" in inner:
            return 'b"k"'
        if inner.get("primitive") == "str":
            return '"k"'
    return None

def surface_programs(jpath):
    d = json.load(open(jpath))
    idx = d["index"]
    progs, uncovered, skipped = [], [], 0
    seen_types = []
    seen_ids = {}
    for k, v in idx.items():
        if v.get("crate_id") != 0 or v.get("visibility") != "public":
            continue
        kind = list(v["inner"].keys())[0]
        if kind not in ("struct", "enum"):
            continue
        tname = v["name"]
        seen_types.append(tname)
        if tname in NOT_TX_DERIVED:
            continue
        prod = PRODUCERS.get(tname)
        if prod is None:
            uncovered.append(f"type {tname}: no producer known")
            continue
        inner = v["inner"][kind]
        for imp in inner.get("impls", []):
            iv = idx[str(imp)]["inner"]["impl"]
            if iv.get("blanket_impl") or iv.get("is_synthetic"):
                continue
            trait = iv["trait"]["path"] if iv.get("trait") else None
            if trait in ("Debug", "PartialEq", "Eq", "StructuralPartialEq", "Hash", "PartialOrd", "Ord", "Display"):
                continue
            for iid in iv["items"]:
                it = idx[str(iid)]
                if "function" not in it["inner"]:
                    continue
                if trait is None and it.get("visibility") != "public":
                    continue
                f = it["inner"]["function"]
                sig = f["sig"]
                inputs = sig["inputs"]
                if not inputs or inputs[0][0] != "self":
                    # associated function without receiver
                    continue
                out = sig.get("output")
                if not type_mentions_local(out, idx):
                    skipped += 1
                    continue
                args, ok = [], True
                for n, (an, aty) in enumerate(inputs[1:]):
                    a = synth_arg(an, aty, f["generics"], n)
                    if a is None:
                        ok = False
                        break
                    args.append(a)
                mname = it["name"]
                if not ok:
                    uncovered.append(f"{tname}::{mname}: cannot synthesise arguments")
                    continue
                recv = prod["recv"]
                base = f"surface/{tname}::{mname}{'@'+trait if trait else ''}"
                nth = seen_ids.get(base, 0)
                seen_ids[base] = nth + 1
                if nth:
                    # a second impl of the same trait method (e.g. for a reference to the type)
                    base += f"#{nth + 1}"
                    recv = f"(&{recv})"
                expr = f'{recv}.{mname}({", ".join(args)})'
                # thread routes apply to handles: results that mention a type of this crate or an opaque iterator
                is_handle = mentions_handle(out, idx)
                kind = "opaque" if mentions_opaque(out, idx) else "probe"
                routes = HANDLE_ROUTES if is_handle else SLICE_ROUTES
                for route in routes:
                    progs.append(dict(id=f"{base}/{route}", origin="surface",
                                      type=f"{tname}::{mname}", route=route, pre=prod["pre"], expr=expr, handle=is_handle, kind=kind))
    # associated functions of trait impls (also impls for foreign types such as Option<KVPair>)
    # that take a transaction-derived value by argument: From / TryFrom style conversions
    def render(t):
        if t is None:
            return "()"
        if "resolved_path" in t:
            rp = t["resolved_path"]
            name = rp.get("path") or rp.get("name")
            args = rp.get("args") or {}
            ab = args.get("angle_bracketed") if isinstance(args, dict) else None
            if ab and ab.get("args"):
                parts = []
                for a in ab["args"]:
                    if "lifetime" in a:
                        parts.append("'_")
                    elif "type" in a:
                        r = render(a["type"])
                        if r is None:
                            return None
                        parts.append(r)
                    else:
                        return None
                return f"{name}<{', '.join(parts)}>"
            return name
        if "borrowed_ref" in t:
            r = render(t["borrowed_ref"]["type"])
            return None if r is None else ("&mut " if t["borrowed_ref"].get("is_mutable") else "&") + r
        if "slice" in t:
            r = render(t["slice"])
            return None if r is None else f"[{r}]"
        if "primitive" in t:
            return t["primitive"]
        if "tuple" in t:
            rs = [render(x) for x in t["tuple"]]
            return None if any(r is None for r in rs) else "(" + ", ".join(rs) + ("," if len(rs) == 1 else "") + ")"
        return None
    def producer_of(t):
        if t and "resolved_path" in t:
            n = (t["resolved_path"].get("path") or t["resolved_path"].get("name") or "").split("::")[-1]
            return n if n in PRODUCERS else None
        return None
    for k, v in idx.items():
        if v.get("crate_id") != 0 or "impl" not in v.get("inner", {}):
            continue
        iv = v["inner"]["impl"]
        if iv.get("blanket_impl") or iv.get("is_synthetic") or not iv.get("trait"):
            continue
        tpath = iv["trait"].get("path") or ""
        if tpath.split("::")[-1] in ("Debug", "PartialEq", "Eq", "StructuralPartialEq", "Hash", "PartialOrd", "Ord", "Display", "Clone", "Drop"):
            continue
        targs = iv["trait"].get("args") or {}
        for iid in iv["items"]:
            it = idx.get(str(iid))
            if not it or "function" not in it["inner"]:
                continue
            f = it["inner"]["function"]
            inputs = f["sig"]["inputs"]
            if not inputs or inputs[0][0] == "self":
                continue
            out = f["sig"].get("output")
            if not type_mentions_local(out, idx):
                continue
            prods = [producer_of(aty) for _, aty in inputs]
            if not any(prods):
                continue
            ft = render(iv["for"])
            tr = render({"resolved_path": {"path": tpath, "args": targs}})
            if ft is None or tr is None:
                uncovered.append(f"impl {tpath} for ...::{it['name']}: cannot render the types")
                continue
            pname = next(p for p in prods if p)
            prod = PRODUCERS[pname]
            args, ok = [], True
            for n, ((an, aty), pr) in enumerate(zip(inputs, prods)):
                if pr == pname and prod["recv"] not in args:
                    args.append(prod["recv"])
                else:
                    a = synth_arg(an, aty, f["generics"], n)
                    if a is None:
                        ok = False
                        break
                    args.append(a)
            if not ok:
                uncovered.append(f"impl {tpath} for {ft}::{it['name']}: cannot synthesise arguments")
                continue
            expr = f"<{ft} as {tr}>::{it['name']}({', '.join(args)})"
            base = f"surface/<{ft} as {tpath}>::{it['name']}"
            is_handle = mentions_handle(out, idx)
            kind = "opaque" if mentions_opaque(out, idx) else "probe"
            for route in (HANDLE_ROUTES if is_handle else SLICE_ROUTES):
                progs.append(dict(id=f"{base}/{route}", origin="surface", type=f"{ft}::{it['name']}", route=route, pre=prod["pre"], expr=expr, handle=is_handle, kind=kind))
    # short-lived key / value / name buffers: for every argument with a ToBytes bound
    for k, v in idx.items():
        if v.get("crate_id") != 0 or v.get("visibility") != "public":
            continue
        kind = list(v["inner"].keys())[0]
        if kind not in ("struct", "enum") or v["name"] not in PRODUCERS:
            continue
        tname = v["name"]
        prod = PRODUCERS[tname]
        for imp in v["inner"][kind].get("impls", []):
            iv = idx[str(imp)]["inner"]["impl"]
            if iv.get("trait") or iv.get("blanket_impl") or iv.get("is_synthetic"):
                continue
            for iid in iv["items"]:
                it = idx[str(iid)]
                if "function" not in it["inner"] or it.get("visibility") != "public":
                    continue
                f = it["inner"]["function"]
                inputs = f["sig"]["inputs"]
                if not inputs or inputs[0][0] != "self":
                    continue
                tb = []
                for n, (an, aty) in enumerate(inputs[1:]):
                    if "generic" in aty:
                        bs = []
                        for p in f["generics"].get("params", []):
                            if p["name"] == aty["generic"] and "type" in p.get("kind", {}):
                                bs = [b.get("trait_bound", {}).get("trait", {}).get("path") for b in p["kind"]["type"].get("bounds", [])]
                        if any(b and b.endswith("ToBytes") for b in bs):
                            tb.append(n)
                SB = '"short-lived-buffer-0123456789-abcdefghij"'
                BUFKINDS = [
                    ("", None, "buf.as_str()", False),
                    ("+bytes-ref", f"let buf = bytes::Bytes::from(String::from({SB}));", "&buf", True),
                    ("+bytes-val-clone", f"let buf = bytes::Bytes::from(String::from({SB}));", "buf.clone()", True),
                    ("+vec-ref", f"let buf = String::from({SB}).into_bytes();", "&buf", True),
                    ("+string-ref", f"let buf = String::from({SB});", "&buf", True),
                    ("+slice", f"let buf = String::from({SB}).into_bytes();", "&buf[..]", True),
                    ("+array-ref", "let buf = *b\"short-lived-buffer-0123456789-abcdefghij\";", "&buf", True),
                ]
                for pos in tb:
                    for suffix, bufdecl, bufarg, optional in BUFKINDS:
                        args = []
                        ok = True
                        for n, (an, aty) in enumerate(inputs[1:]):
                            if n == pos:
                                args.append(bufarg)
                            else:
                                a = synth_arg(an, aty, f["generics"], n)
                                if a is None:
                                    ok = False
                                    break
                                args.append(a)
                        if not ok:
                            continue
                        progs.append(dict(id=f"shortbuf/{tname}::{it['name']}/arg{pos}{suffix}", origin="shortbuf", type=f"{tname}::{it['name']}",
                                          route="shortbuf", pre=prod["pre"], expr=f'{prod["recv"]}.{it["name"]}({", ".join(args)})', handle=False, kind="probe",
                                          bufdecl=bufdecl, optional=optional))
    for t in PRODUCERS:
        if t not in seen_types:
            uncovered.append(f"producer for {t} but the type is not in the public surface any more")
    return progs, uncovered, skipped

# ---------------------------------------------------------------- compile / run

def rustc(src_path, out_path, rlib, deps, emit_metadata):
    cmd = ["rustc", "--edition", "2021", "--error-format=json", "--crate-type", "bin", "--cap-lints", "allow",
           "--extern", f"jammdb={rlib}", "-L", f"dependency={deps}", "-C", "debuginfo=0"]
    import glob as _glob
    bl = sorted(_glob.glob(os.path.join(deps, "libbytes-*.rlib")))
    if bl:
        cmd += ["--extern", f"bytes={bl[0]}"]
    if emit_metadata:
        cmd += ["--emit=metadata", "-o", out_path]
    else:
        cmd += ["-C", "opt-level=1", "-o", out_path]
    cmd.append(src_path)
    p = subprocess.run(cmd, capture_output=True, text=True)
    errs = []
    for line in p.stderr.splitlines():
        try:
            m = json.loads(line)
        except Exception:
            continue
        if m.get("level") == "error":
            errs.append(((m.get("code") or {}).get("code"), m.get("message", "")))
    return p.returncode, errs

def classify(errs):
    """'borrow' | 'send' | 'other' for the set of errors"""
    kinds = set()
    for code, msg in errs:
        if msg.startswith("aborting due to"):
            continue
        if code in BORROW_CODES or any(s in msg for s in BORROW_MSGS):
            kinds.add("borrow")
        elif code == "E0277" and any(s in msg for s in SEND_MSGS):
            kinds.add("send")
        else:
            kinds.add("other:" + str(code))
    return kinds

def judge_escape(prog, work, rlib, deps):
    """Returns a result dict for one escape program."""
    res = dict(id=prog["id"], origin=prog["origin"], type=prog["type"], route=prog["route"], expr=prog["expr"])
    thread_route = prog["route"] in ("spawn", "scoped")
    variants = ["bytes", "probe", "sized"] if not thread_route else ["sized"]
    if prog["route"] == "shortbuf":
        variants = ["sized"]
    last = None
    for keep in variants:
        src = route_program(prog["route"], prog["pre"], prog["expr"], keep, prog.get("bufdecl"))
        h = hashlib.sha1((prog["id"] + keep).encode()).hexdigest()[:12]
        d = os.path.join(work, h)
        os.makedirs(d, exist_ok=True)
        sp = os.path.join(d, "p.rs")
        open(sp, "w").write(src)
        rc, errs = rustc(sp, os.path.join(d, "p.rmeta"), rlib, deps, True)
        res["variant"] = keep
        res["codes"] = sorted({c for c, _ in errs if c})
        if rc != 0:
            kinds = classify(errs)
            expected = {"borrow", "send"} if thread_route else {"borrow"}
            if kinds & expected and not (kinds - {"borrow", "send"}):
                res["verdict"] = "rejected_expected"
                shutil.rmtree(d, ignore_errors=True)
                return res
            if prog["route"] == "scoped" and kinds == {"borrow"}:
                res["verdict"] = "rejected_expected"
                shutil.rmtree(d, ignore_errors=True)
                return res
            last = (kinds, errs, src)
            shutil.rmtree(d, ignore_errors=True)
            continue
        # it compiles
        if thread_route:
            res["verdict"] = "compiled_thread_escape"
            res["src"] = src
            shutil.rmtree(d, ignore_errors=True)
            return res
        if keep == "sized" and prog.get("kind") == "opaque":
            # a bucket / cursor / iterator handle that outlives its transaction
            res["verdict"] = "compiled_handle_escape"
            res["src"] = src
            shutil.rmtree(d, ignore_errors=True)
            return res
        binp = os.path.join(d, "p.bin")
        rc2, errs2 = rustc(sp, binp, rlib, deps, False)
        if rc2 != 0:
            res["verdict"] = "inconclusive_link"
            res["detail"] = "; ".join(m for _, m in errs2)[:300]
            shutil.rmtree(d, ignore_errors=True)
            return res
        try:
            p = subprocess.run([binp], cwd=d, capture_output=True, text=True, timeout=120)
            rcr = p.returncode
            tail = (p.stderr or "")[-300:]
        except subprocess.TimeoutExpired:
            rcr, tail = "timeout", ""
        res["src"] = src
        if rcr == 0:
            # the same program with a 300-byte key, a 300-byte bucket name and a multi-page value:
            # sizes above any inline / small-copy threshold must behave the same
            lsrc = longify(src)
            lp = os.path.join(d, "pl.rs")
            open(lp, "w").write(lsrc)
            lbin = os.path.join(d, "pl.bin")
            rc3, errs3 = rustc(lp, lbin, rlib, deps, False)
            if rc3 == 0:
                try:
                    p = subprocess.run([lbin], cwd=d, capture_output=True, text=True, timeout=120)
                    rcl, tail = p.returncode, (p.stderr or "")[-300:]
                except subprocess.TimeoutExpired:
                    rcl, tail = "timeout", ""
                if rcl not in (0, "timeout"):
                    res["src"] = lsrc
                    if rcl == 77:
                        res["verdict"] = "compiled_hung"
                        res["detail"] = "long-key variant: a new write transaction could not start within 20 s"
                    else:
                        res["verdict"] = "compiled_faulted"
                        res["detail"] = f"long-key variant (300-byte key and bucket name, 3000-byte value): exit {rcl}: {tail}"
                    shutil.rmtree(d, ignore_errors=True)
                    return res
                res["long_variant"] = "ran" if rcl == 0 else "timeout"
            else:
                res["long_variant"] = "did not compile: " + "; ".join(m for _, m in errs3)[:200]
            res["verdict"] = "compiled_ran_unharmed"
        elif rcr == 77:
            res["verdict"] = "compiled_hung"
            res["detail"] = "the program compiles; after the escape, a new write transaction could not start within 20 s (something that should have ended is still alive)"
        elif rcr == "timeout":
            res["verdict"] = "inconclusive_timeout"
        else:
            res["verdict"] = "compiled_faulted"
            res["detail"] = f"exit {rcr}: {tail}"
        shutil.rmtree(d, ignore_errors=True)
        return res
    kinds, errs, src = last
    if prog.get("optional"):
        # a buffer kind the argument does not accept at all (no ToBytes impl): nothing to judge
        res["verdict"] = "not_applicable"
        return res
    res["verdict"] = "rejected_other"
    res["detail"] = "; ".join(f"{c}: {m}" for c, m in errs if not m.startswith("aborting"))[:400]
    return res

def judge_special(pid, expect, src, work, rlib, deps):
    h = hashlib.sha1(pid.encode()).hexdigest()[:12]
    d = os.path.join(work, h)
    os.makedirs(d, exist_ok=True)
    sp = os.path.join(d, "p.rs")
    open(sp, "w").write(src)
    rc, errs = rustc(sp, os.path.join(d, "p.rmeta"), rlib, deps, True)
    shutil.rmtree(d, ignore_errors=True)
    res = dict(id=pid, origin="special", type=pid.split("/")[1], route=expect, expr="", codes=sorted({c for c, _ in errs if c}))
    if rc == 0:
        res["verdict"] = "compiled_thread_escape" if expect == "send" else "compiled_special"
        res["src"] = src
        return res
    kinds = classify(errs)
    ok = ("send" in kinds or "borrow" in kinds) if expect == "send" else ("borrow" in kinds)
    if ok and not any(k.startswith("other") for k in kinds):
        res["verdict"] = "rejected_expected"
    else:
        res["verdict"] = "rejected_other"
        res["detail"] = "; ".join(f"{c}: {m}" for c, m in errs if not m.startswith("aborting"))[:400]
    return res

def judge_control(pid, src, work, rlib, deps):
    h = hashlib.sha1(pid.encode()).hexdigest()[:12]
    d = os.path.join(work, h)
    os.makedirs(d, exist_ok=True)
    sp = os.path.join(d, "p.rs")
    open(sp, "w").write(src)
    binp = os.path.join(d, "p.bin")
    rc, errs = rustc(sp, binp, rlib, deps, False)
    res = dict(id=pid, origin="control", type="control", route="control", expr="")
    if rc != 0:
        res["verdict"] = "control_rejected"
        res["detail"] = "; ".join(f"{c}: {m}" for c, m in errs if not m.startswith("aborting"))[:400]
        res["src"] = src
    else:
        try:
            p = subprocess.run([binp], cwd=d, capture_output=True, text=True, timeout=120)
            if p.returncode == 0:
                res["verdict"] = "control_ok"
            else:
                res["verdict"] = "control_failed"
                res["detail"] = f"exit {p.returncode}: {(p.stderr or '')[-300:]}"
                res["src"] = src
        except subprocess.TimeoutExpired:
            res["verdict"] = "inconclusive_timeout"
    shutil.rmtree(d, ignore_errors=True)
    return res

def main():
    ap = argparse.ArgumentParser()
    ap.add_argument("--deps", required=True)
    ap.add_argument("--json", default="")
    ap.add_argument("--out", required=True)
    ap.add_argument("--work", required=True)
    ap.add_argument("--only", default="")  # replay a single program id
    ap.add_argument("--jobs", type=int, default=16)
    ap.add_argument("--wrap", action="store_true", help="also push every result through container wrappers (thorough tier)")
    a = ap.parse_args()
    rlibs = sorted(glob.glob(os.path.join(a.deps, "libjammdb-*.rlib")), key=os.path.getmtime)
    if not rlibs:
        json.dump(dict(error="no libjammdb rlib in " + a.deps), open(a.out, "w"))
        return 2
    rlib = rlibs[-1]
    os.makedirs(a.work, exist_ok=True)
    escapes = corpus()
    uncovered, skipped = [], 0
    if a.json and os.path.exists(a.json):
        sp, uncovered, skipped = surface_programs(a.json)
        escapes += sp
    else:
        uncovered.append("rustdoc JSON unavailable: surface-driven programs not generated")
    if a.wrap:
        wrapped = []
        for p in escapes:
            if p["route"] in ("spawn", "scoped", "shortbuf"):
                continue
            for wname, w in (("some", "Some({})"), ("tuple", "({}, 1u8)"), ("boxed", "Box::new({})"), ("vec", "vec![{}]"), ("closure", "{{ let v = {}; move || {{ let _ = &v; }} }}")):
                q = dict(p)
                q["id"] = p["id"] + "+" + wname
                q["expr"] = w.format(p["expr"])
                q["origin"] = p["origin"] + "+wrap"
                wrapped.append(q)
        escapes += wrapped
    jobs = []
    for p in escapes:
        jobs.append(("escape", p))
    for pid, expect, src in SPECIAL:
        jobs.append(("special", (pid, expect, src)))
    for pid, src in CONTROLS:
        jobs.append(("control", (pid, src)))
    if a.only:
        jobs = [j for j in jobs if (j[1]["id"] if j[0] == "escape" else j[1][0]) == a.only]
    def run(j):
        kind, p = j
        try:
            if kind == "escape":
                return judge_escape(p, a.work, rlib, a.deps)
            if kind == "special":
                return judge_special(p[0], p[1], p[2], a.work, rlib, a.deps)
            return judge_control(p[0], p[1], a.work, rlib, a.deps)
        except Exception as e:  # harness problem: inconclusive for this program
            pid = p["id"] if kind == "escape" else p[0]
            return dict(id=pid, origin=kind, type="", route="", expr="", verdict="inconclusive_harness", detail=repr(e))
    with concurrent.futures.ThreadPoolExecutor(max_workers=a.jobs) as ex:
        results = list(ex.map(run, jobs))
    json.dump(dict(rlib=rlib, programs=len(results), results=results, uncovered=uncovered, methods_without_borrowed_result=skipped), open(a.out, "w"))
    return 0

if __name__ == "__main__":
    sys.exit(main())
