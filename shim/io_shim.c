/* E3: LD_PRELOAD I/O shim for the jammdb verification harness.
 *
 * For file descriptors whose path equals $JV_SHIM_DB it appends binary records to $JV_SHIM_LOG:
 *   u32 type, u32 pad, u64 seq, i64 offset, u64 len, u64 file_size_after, i64 result, payload[len]
 * types: 1 write  2 fsync/fdatasync/sync_file_range  3 ftruncate  4 fallocate (libc entry points)
 *        5 marker  6 open  7 mmap (len = prot)  8 close  9 injected failure  10 sync_file_range
 *        11 lseek(SEEK_SET) while armed
 * Markers: write(JV_MARK_FD, text, n) with JV_MARK_FD = -4242 is swallowed and logged.
 * Fault injection: JV_SHIM_FAIL="<nth>:<errno>[:short=<bytes>]" fails the nth (1-based) counted
 * call (write / fsync / ftruncate / lseek on the db descriptor) issued after the marker "ARM";
 * the marker "ARM2" re-arms with JV_SHIM_FAIL2 (second fault of a pair, in a later commit);
 * with short=<bytes> a write first transfers that many bytes successfully (short write) and the
 * next write call on the descriptor fails with <errno>.
 * JV_SHIM_GATE="<event>:<n>:<dir>": at the nth occurrence of event (open|write|fsync|mmap|close|
 * openret|stat|statret) on the db path, create <dir>/reached and wait until <dir>/go exists.
 */
#define _GNU_SOURCE
#include <dlfcn.h>
#include <errno.h>
#include <fcntl.h>
#include <stdarg.h>
#include <stdint.h>
#include <stdio.h>
#include <stdlib.h>
#include <string.h>
#include <sys/mman.h>
#include <sys/resource.h>
#include <sys/stat.h>
#include <sys/types.h>
#include <sys/uio.h>
#include <unistd.h>
#include <pthread.h>

#define MARK_FD (-4242)
#define MAXFD 4096

static int initialised = 0;
static char db_path[4096];
static int log_fd = -1;
static uint64_t seq = 0;
static unsigned char is_db[MAXFD];
static pthread_mutex_t mu = PTHREAD_MUTEX_INITIALIZER;

static int fail_nth = 0, fail_errno = 0, fail_short = -1;
static int armed = 0, counted = 0, fail_next_write = 0;

static char gate_event[32];
static int gate_n = 0, gate_seen = 0;
static char gate_dir[4096];

static ssize_t (*real_write)(int, const void *, size_t);
static ssize_t (*real_pwrite)(int, const void *, size_t, off_t);
static ssize_t (*real_pwrite64)(int, const void *, size_t, off64_t);
static ssize_t (*real_writev)(int, const struct iovec *, int);
static int (*real_open)(const char *, int, ...);
static int (*real_open64)(const char *, int, ...);
static int (*real_openat)(int, const char *, int, ...);
static int (*real_openat64)(int, const char *, int, ...);
static int (*real_close)(int);
static int (*real_fsync)(int);
static int (*real_fdatasync)(int);
static int (*real_ftruncate)(int, off_t);
static int (*real_ftruncate64)(int, off64_t);
static int (*real_fallocate)(int, int, off_t, off_t);
static int (*real_fallocate64)(int, int, off64_t, off64_t);
static int (*real_posix_fallocate)(int, off_t, off_t);
static int (*real_posix_fallocate64)(int, off64_t, off64_t);
static off_t (*real_lseek)(int, off_t, int);
static off64_t (*real_lseek64)(int, off64_t, int);
static void *(*real_mmap)(void *, size_t, int, int, int, off_t);
static void *(*real_mmap64)(void *, size_t, int, int, int, off64_t);
static int (*real_sync_file_range)(int, off64_t, off64_t, unsigned int);
struct statx;
static int (*real_statx)(int, const char *, int, unsigned int, struct statx *);
static int (*real_fstat)(int, struct stat *);
static int (*real_fstat64)(int, struct stat64 *);

static void init(void) {
    if (initialised) return;
    initialised = 1;
    real_write = dlsym(RTLD_NEXT, "write");
    real_pwrite = dlsym(RTLD_NEXT, "pwrite");
    real_pwrite64 = dlsym(RTLD_NEXT, "pwrite64");
    real_writev = dlsym(RTLD_NEXT, "writev");
    real_open = dlsym(RTLD_NEXT, "open");
    real_open64 = dlsym(RTLD_NEXT, "open64");
    real_openat = dlsym(RTLD_NEXT, "openat");
    real_openat64 = dlsym(RTLD_NEXT, "openat64");
    real_close = dlsym(RTLD_NEXT, "close");
    real_fsync = dlsym(RTLD_NEXT, "fsync");
    real_fdatasync = dlsym(RTLD_NEXT, "fdatasync");
    real_ftruncate = dlsym(RTLD_NEXT, "ftruncate");
    real_ftruncate64 = dlsym(RTLD_NEXT, "ftruncate64");
    real_fallocate = dlsym(RTLD_NEXT, "fallocate");
    real_fallocate64 = dlsym(RTLD_NEXT, "fallocate64");
    real_posix_fallocate = dlsym(RTLD_NEXT, "posix_fallocate");
    real_posix_fallocate64 = dlsym(RTLD_NEXT, "posix_fallocate64");
    real_lseek = dlsym(RTLD_NEXT, "lseek");
    real_lseek64 = dlsym(RTLD_NEXT, "lseek64");
    real_mmap = dlsym(RTLD_NEXT, "mmap");
    real_mmap64 = dlsym(RTLD_NEXT, "mmap64");
    real_sync_file_range = dlsym(RTLD_NEXT, "sync_file_range");
    real_statx = dlsym(RTLD_NEXT, "statx");
    real_fstat = dlsym(RTLD_NEXT, "fstat");
    real_fstat64 = dlsym(RTLD_NEXT, "fstat64");
    const char *p = getenv("JV_SHIM_DB");
    if (p) strncpy(db_path, p, sizeof(db_path) - 1);
    const char *l = getenv("JV_SHIM_LOG");
    if (l && real_open) {
        log_fd = real_open(l, O_WRONLY | O_CREAT | O_APPEND | O_CLOEXEC, 0644);
    }
    const char *f = getenv("JV_SHIM_FAIL");
    if (f) {
        sscanf(f, "%d:%d", &fail_nth, &fail_errno);
        const char *s = strstr(f, "short=");
        if (s) fail_short = atoi(s + 6);
    }
    const char *g = getenv("JV_SHIM_GATE");
    if (g) {
        const char *c1 = strchr(g, ':');
        if (c1) {
            size_t n = (size_t)(c1 - g);
            if (n >= sizeof(gate_event)) n = sizeof(gate_event) - 1;
            memcpy(gate_event, g, n);
            gate_n = atoi(c1 + 1);
            const char *c2 = strchr(c1 + 1, ':');
            if (c2) strncpy(gate_dir, c2 + 1, sizeof(gate_dir) - 1);
        }
    }
}

static int tracked(int fd) { return fd >= 0 && fd < MAXFD && is_db[fd]; }

static uint64_t fsize(int fd) {
    struct stat st;
    if (real_fstat) {
        if (real_fstat(fd, &st) == 0) return (uint64_t)st.st_size;
        return 0;
    }
    off64_t cur = real_lseek64 ? real_lseek64(fd, 0, SEEK_CUR) : -1;
    if (cur < 0) return 0;
    off64_t end = real_lseek64(fd, 0, SEEK_END);
    real_lseek64(fd, cur, SEEK_SET);
    return end < 0 ? 0 : (uint64_t)end;
}

static void logrec(uint32_t type, int64_t off, uint64_t len, uint64_t size_after, int64_t result, const void *payload, uint64_t plen) {
    if (log_fd < 0) return;
    unsigned char hdr[48];
    uint32_t pad = 0;
    uint64_t s = ++seq;
    memcpy(hdr, &type, 4);
    memcpy(hdr + 4, &pad, 4);
    memcpy(hdr + 8, &s, 8);
    memcpy(hdr + 16, &off, 8);
    memcpy(hdr + 24, &len, 8);
    memcpy(hdr + 32, &size_after, 8);
    memcpy(hdr + 40, &result, 8);
    /* a file-size limit set by the program under test (RLIMIT_FSIZE fault injection) must not
       cut the log short: lift the soft limit around the log write */
    struct rlimit rl, saved;
    int lifted = 0;
    if (getrlimit(RLIMIT_FSIZE, &rl) == 0 && rl.rlim_cur != rl.rlim_max) {
        saved = rl;
        rl.rlim_cur = rl.rlim_max;
        if (setrlimit(RLIMIT_FSIZE, &rl) == 0) lifted = 1;
    }
    real_write(log_fd, hdr, sizeof(hdr));
    if (plen > 0 && payload) {
        const char *p = payload;
        uint64_t done = 0;
        while (done < plen) {
            ssize_t w = real_write(log_fd, p + done, plen - done);
            if (w <= 0) break;
            done += (uint64_t)w;
        }
    }
    if (lifted) setrlimit(RLIMIT_FSIZE, &saved);
}

static void gate(const char *event) {
    if (!gate_n || strcmp(event, gate_event) != 0) return;
    gate_seen++;
    if (gate_seen != gate_n) return;
    char p[4200];
    snprintf(p, sizeof(p), "%s/reached", gate_dir);
    int fd = real_open(p, O_WRONLY | O_CREAT, 0644);
    if (fd >= 0) real_close(fd);
    snprintf(p, sizeof(p), "%s/go", gate_dir);
    for (int i = 0; i < 200000; i++) {
        if (access(p, F_OK) == 0) break;
        usleep(200);
    }
}

/* returns errno to inject (0 = none); for writes *short_len >= 0 requests a short write */
static int should_fail(int is_write, int *short_len) {
    *short_len = -1;
    if (is_write && fail_next_write) {
        fail_next_write = 0;
        return fail_errno;
    }
    if (!armed || !fail_nth) return 0;
    counted++;
    if (counted != fail_nth) return 0;
    if (is_write && fail_short >= 0) {
        *short_len = fail_short;
        fail_next_write = 1;
        return 0;
    }
    return fail_errno;
}

static int match_path(const char *path) {
    return db_path[0] && path && strcmp(path, db_path) == 0;
}

static void note_open(int fd, const char *path, int flags) {
    if (fd >= 0 && fd < MAXFD) {
        if (match_path(path)) {
            is_db[fd] = 1;
            pthread_mutex_lock(&mu);
            logrec(6, flags, 0, fsize(fd), fd, NULL, 0);
            pthread_mutex_unlock(&mu);
            gate("openret");
        } else {
            is_db[fd] = 0;
        }
    }
}

int open(const char *path, int flags, ...) {
    init();
    mode_t mode = 0;
    if (flags & (O_CREAT | O_TMPFILE)) {
        va_list ap;
        va_start(ap, flags);
        mode = va_arg(ap, mode_t);
        va_end(ap);
    }
    if (match_path(path)) gate("open");
    int fd = real_open(path, flags, mode);
    note_open(fd, path, flags);
    return fd;
}

int open64(const char *path, int flags, ...) {
    init();
    mode_t mode = 0;
    if (flags & (O_CREAT | O_TMPFILE)) {
        va_list ap;
        va_start(ap, flags);
        mode = va_arg(ap, mode_t);
        va_end(ap);
    }
    if (match_path(path)) gate("open");
    int fd = real_open64(path, flags, mode);
    note_open(fd, path, flags);
    return fd;
}

int openat(int dirfd, const char *path, int flags, ...) {
    init();
    mode_t mode = 0;
    if (flags & (O_CREAT | O_TMPFILE)) {
        va_list ap;
        va_start(ap, flags);
        mode = va_arg(ap, mode_t);
        va_end(ap);
    }
    if (match_path(path)) gate("open");
    int fd = real_openat(dirfd, path, flags, mode);
    note_open(fd, path, flags);
    return fd;
}

int openat64(int dirfd, const char *path, int flags, ...) {
    init();
    mode_t mode = 0;
    if (flags & (O_CREAT | O_TMPFILE)) {
        va_list ap;
        va_start(ap, flags);
        mode = va_arg(ap, mode_t);
        va_end(ap);
    }
    if (match_path(path)) gate("open");
    int fd = real_openat64(dirfd, path, flags, mode);
    note_open(fd, path, flags);
    return fd;
}

int close(int fd) {
    init();
    if (tracked(fd)) {
        gate("close");
        pthread_mutex_lock(&mu);
        logrec(8, 0, 0, fsize(fd), fd, NULL, 0);
        pthread_mutex_unlock(&mu);
        is_db[fd] = 0;
    }
    return real_close(fd);
}

static ssize_t do_write(int fd, const void *buf, size_t n, int64_t off, int positional) {
    gate("write");
    pthread_mutex_lock(&mu);
    int short_len;
    int e = should_fail(1, &short_len);
    if (e) {
        logrec(9, off, n, fsize(fd), -e, NULL, 0);
        pthread_mutex_unlock(&mu);
        errno = e;
        return -1;
    }
    size_t todo = n;
    if (short_len >= 0 && (size_t)short_len < n) todo = (size_t)short_len;
    ssize_t r;
    if (todo == 0 && short_len >= 0) {
        r = 0;
    } else if (positional) {
        r = real_pwrite64(fd, buf, todo, (off64_t)off);
    } else {
        r = real_write(fd, buf, todo);
    }
    if (r > 0) logrec(1, off, (uint64_t)r, fsize(fd), r, buf, (uint64_t)r);
    else logrec(1, off, 0, fsize(fd), r, NULL, 0);
    pthread_mutex_unlock(&mu);
    return r;
}

ssize_t write(int fd, const void *buf, size_t n) {
    init();
    if (fd == MARK_FD) {
        pthread_mutex_lock(&mu);
        if (n >= 4 && memcmp(buf, "ARM2", 4) == 0) {
            /* second fault of a pair: re-arm with JV_SHIM_FAIL2 */
            const char *f2 = getenv("JV_SHIM_FAIL2");
            fail_nth = 0; fail_errno = 0; fail_short = -1; fail_next_write = 0;
            if (f2 && *f2) {
                sscanf(f2, "%d:%d", &fail_nth, &fail_errno);
                const char *s2 = strstr(f2, "short=");
                if (s2) fail_short = atoi(s2 + 6);
            }
            armed = 1;
            counted = 0;
        } else if (n >= 3 && memcmp(buf, "ARM", 3) == 0) {
            armed = 1;
            counted = 0;
        }
        if (n >= 6 && memcmp(buf, "DISARM", 6) == 0) armed = 0;
        logrec(5, 0, n, 0, 0, buf, n);
        pthread_mutex_unlock(&mu);
        return (ssize_t)n;
    }
    if (!tracked(fd)) return real_write(fd, buf, n);
    int64_t off = (int64_t)real_lseek64(fd, 0, SEEK_CUR);
    return do_write(fd, buf, n, off, 0);
}

ssize_t pwrite(int fd, const void *buf, size_t n, off_t off) {
    init();
    if (!tracked(fd)) return real_pwrite(fd, buf, n, off);
    return do_write(fd, buf, n, (int64_t)off, 1);
}

ssize_t pwrite64(int fd, const void *buf, size_t n, off64_t off) {
    init();
    if (!tracked(fd)) return real_pwrite64(fd, buf, n, off);
    return do_write(fd, buf, n, (int64_t)off, 1);
}

ssize_t writev(int fd, const struct iovec *iov, int cnt) {
    init();
    if (!tracked(fd)) return real_writev(fd, iov, cnt);
    /* serialise into single writes so every byte is logged */
    ssize_t total = 0;
    for (int i = 0; i < cnt; i++) {
        int64_t off = (int64_t)real_lseek64(fd, 0, SEEK_CUR);
        ssize_t r = do_write(fd, iov[i].iov_base, iov[i].iov_len, off, 0);
        if (r < 0) return total > 0 ? total : r;
        total += r;
        if ((size_t)r < iov[i].iov_len) break;
    }
    return total;
}

static int do_sync(int fd, int (*fn)(int)) {
    gate("fsync");
    pthread_mutex_lock(&mu);
    int short_len;
    int e = should_fail(0, &short_len);
    if (e) {
        logrec(9, 0, 0, fsize(fd), -e, NULL, 0);
        pthread_mutex_unlock(&mu);
        errno = e;
        return -1;
    }
    int r = fn(fd);
    logrec(2, 0, 0, fsize(fd), r, NULL, 0);
    pthread_mutex_unlock(&mu);
    return r;
}

int fsync(int fd) {
    init();
    if (!tracked(fd)) return real_fsync(fd);
    return do_sync(fd, real_fsync);
}

int fdatasync(int fd) {
    init();
    if (!tracked(fd)) return real_fdatasync(fd);
    return do_sync(fd, real_fdatasync);
}

int sync_file_range(int fd, off64_t off, off64_t n, unsigned int flags) {
    init();
    int r = real_sync_file_range(fd, off, n, flags);
    if (tracked(fd)) {
        pthread_mutex_lock(&mu);
        /* not a durability guarantee for metadata: logged as type 10, ignored by the analyser */
        logrec(10, off, (uint64_t)n, fsize(fd), r, NULL, 0);
        pthread_mutex_unlock(&mu);
    }
    return r;
}

int ftruncate(int fd, off_t len) {
    init();
    if (!tracked(fd)) return real_ftruncate(fd, len);
    pthread_mutex_lock(&mu);
    int short_len;
    int e = should_fail(0, &short_len);
    if (e) {
        logrec(9, len, 0, fsize(fd), -e, NULL, 0);
        pthread_mutex_unlock(&mu);
        errno = e;
        return -1;
    }
    int r = real_ftruncate(fd, len);
    logrec(3, len, 0, fsize(fd), r, NULL, 0);
    pthread_mutex_unlock(&mu);
    return r;
}

int ftruncate64(int fd, off64_t len) {
    init();
    if (!tracked(fd)) return real_ftruncate64(fd, len);
    pthread_mutex_lock(&mu);
    int r = real_ftruncate64(fd, len);
    logrec(3, len, 0, fsize(fd), r, NULL, 0);
    pthread_mutex_unlock(&mu);
    return r;
}

int fallocate(int fd, int mode, off_t off, off_t len) {
    init();
    int r = real_fallocate(fd, mode, off, len);
    if (tracked(fd)) {
        pthread_mutex_lock(&mu);
        logrec(4, off, (uint64_t)len, fsize(fd), r, NULL, 0);
        pthread_mutex_unlock(&mu);
    }
    return r;
}

int fallocate64(int fd, int mode, off64_t off, off64_t len) {
    init();
    int r = real_fallocate64(fd, mode, off, len);
    if (tracked(fd)) {
        pthread_mutex_lock(&mu);
        logrec(4, off, (uint64_t)len, fsize(fd), r, NULL, 0);
        pthread_mutex_unlock(&mu);
    }
    return r;
}

int posix_fallocate(int fd, off_t off, off_t len) {
    init();
    int r = real_posix_fallocate(fd, off, len);
    if (tracked(fd)) {
        pthread_mutex_lock(&mu);
        logrec(4, off, (uint64_t)len, fsize(fd), r, NULL, 0);
        pthread_mutex_unlock(&mu);
    }
    return r;
}

int posix_fallocate64(int fd, off64_t off, off64_t len) {
    init();
    int r = real_posix_fallocate64(fd, off, len);
    if (tracked(fd)) {
        pthread_mutex_lock(&mu);
        logrec(4, off, (uint64_t)len, fsize(fd), r, NULL, 0);
        pthread_mutex_unlock(&mu);
    }
    return r;
}

off_t lseek(int fd, off_t off, int whence) {
    init();
    if (tracked(fd) && whence == SEEK_SET) {
        pthread_mutex_lock(&mu);
        int short_len;
        int e = should_fail(0, &short_len);
        if (e) {
            logrec(9, off, 0, fsize(fd), -e, NULL, 0);
            pthread_mutex_unlock(&mu);
            errno = e;
            return (off_t)-1;
        }
        if (armed) logrec(11, off, 0, fsize(fd), 0, NULL, 0);
        pthread_mutex_unlock(&mu);
    }
    return real_lseek(fd, off, whence);
}

off64_t lseek64(int fd, off64_t off, int whence) {
    init();
    if (tracked(fd) && whence == SEEK_SET) {
        pthread_mutex_lock(&mu);
        int short_len;
        int e = should_fail(0, &short_len);
        if (e) {
            logrec(9, off, 0, fsize(fd), -e, NULL, 0);
            pthread_mutex_unlock(&mu);
            errno = e;
            return (off64_t)-1;
        }
        if (armed) logrec(11, off, 0, fsize(fd), 0, NULL, 0);
        pthread_mutex_unlock(&mu);
    }
    return real_lseek64(fd, off, whence);
}

void *mmap(void *addr, size_t len, int prot, int flags, int fd, off_t off) {
    init();
    if (tracked(fd)) {
        gate("mmap");
        pthread_mutex_lock(&mu);
        logrec(7, off, (uint64_t)prot, fsize(fd), (int64_t)flags, NULL, 0);
        pthread_mutex_unlock(&mu);
    }
    return real_mmap(addr, len, prot, flags, fd, off);
}

void *mmap64(void *addr, size_t len, int prot, int flags, int fd, off64_t off) {
    init();
    if (tracked(fd)) {
        gate("mmap");
        pthread_mutex_lock(&mu);
        logrec(7, off, (uint64_t)prot, fsize(fd), (int64_t)flags, NULL, 0);
        pthread_mutex_unlock(&mu);
    }
    return real_mmap64(addr, len, prot, flags, fd, off);
}


/* file metadata queries on the database descriptor: gate events "stat" (before) and "statret" (after) */
int statx(int dirfd, const char *path, int flags, unsigned int mask, struct statx *buf) {
    init();
    int t = tracked(dirfd) && (path == NULL || path[0] == 0);
    if (t) gate("stat");
    int r = real_statx ? real_statx(dirfd, path, flags, mask, buf) : -1;
    if (t) gate("statret");
    return r;
}

int fstat(int fd, struct stat *buf) {
    init();
    int t = tracked(fd);
    if (t) gate("stat");
    int r = real_fstat(fd, buf);
    if (t) gate("statret");
    return r;
}

int fstat64(int fd, struct stat64 *buf) {
    init();
    int t = tracked(fd);
    if (t) gate("stat");
    int r = real_fstat64(fd, buf);
    if (t) gate("statret");
    return r;
}
