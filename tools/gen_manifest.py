#!/usr/bin/env python3
"""Generates /verif/MANIFEST.json from the table below (kept next to the checks so that
the manifest always lists exactly the checks that exist)."""
import json, os, subprocess
ROOT = os.path.dirname(os.path.dirname(os.path.abspath(__file__)))

def repo_commits(prefix):
    out = subprocess.check_output(["git", "-C", "/repo", "log", "--format=%H %s"]).decode().splitlines()
    return [l.split()[0] for l in out if l.split(" ", 1)[1].startswith(prefix)]

CHECKS = {
 "C01": dict(level="exploration", engine="E1+E2", technique="model-based property testing (proptest histories vs reference nested map) + exhaustive deletion-subset enumeration of small multi-level trees",
   text="Generated API histories and every deletion subset of small one-/two-/three-level and mixed trees are executed against jammdb and a reference nested ordered map; every return value, a fresh-reader dump, an independent parse of the file and a reopen are compared after every commit. Exploration: bounded by the generated set reported in the evidence, not a proof.",
   note="Reference model encodes DESIGN.md 1.3; independent parser encodes the pinned file layout; scratch files on tmpfs; x86_64 Linux.", ref="4/C01"),
 "C02": dict(level="fault_enumeration", engine="E1+E2+E3", technique="crash-image enumeration from an LD_PRELOAD write log of generated histories: all subsets of unsynced writes (exhaustive <= 10, structured + seeded above), torn at sector / word granularity, size change durable or lost; oracle = independent parser + reopen show exactly the previous or the new state",
   text="Generated histories run in a worker under an I/O shim that records every write, sync and file size; for every group of writes between two completed syncs all (or a structured + seeded sample of) subsets, torn variants and size variants are materialised on a scratch file, which must parse as structurally sound, show exactly S_{i-1} or S_i (exactly S_i after commit returned) and reopen through the public API to the same state.",
   note="Classic power-loss model (DESIGN.md 9); fallocate is observed through fstat, not intercepted.", ref="4/C02"),
 "C03": dict(level="exploration", engine="E1+E2", technique="stateful property testing: generated single-thread interleavings of up to 4 readers with committing / rolling-back writers, every open reader re-dumped and compared with its model snapshot after every step",
   text="Generated step sequences (open reader, close any reader, writer commit/rollback with update/delete-heavy ops that free and reuse pages, reopen); each reader keeps the model clone from its begin and is re-verified in full after every step; commits are also parsed independently to know which of them reused freed pages.",
   note="File pre-sized so no commit grows it while a reader is open on the same thread (documented self-deadlock); such cases are discarded and counted.", ref="4/C03"),
 "C04": dict(level="exploration", engine="E4", technique="schedule enumeration: real threads under a cooperative controller at instrumented yield points; depth-first enumeration of all schedules within a preemption bound plus seeded random / PCT schedules; oracle = each reader's dumps against the chain of model states",
   text="Reader threads race a writer thread's chain of page-reusing commits; the schedule (choice of thread at every instrumented yield point inside jammdb and between API calls) is the generated input. All schedules with <= 2 (thorough 3) preemptions are enumerated by re-execution (exhaustive flag says whether every enumeration completed), then random and PCT schedules. Each reader must see exactly one committed state, at least as new as every commit that returned before it began, unchanged while it is open, without panic.",
   note="Interleavings at the instrumented yield points of the verif-hooks build only; no weak-memory effects.", ref="4/C04"),
 "C05": dict(level="exploration", engine="E1+E2", technique="property-based testing: generated histories (bucket-deletion storms, mixed buckets, C01 grammar) with an independent file parser doing exact page accounting after every commit, cross-checked with DB::check()",
   text="After every commit of every generated history the raw file bytes are parsed by code that shares nothing with jammdb: each page below the high-water mark must be exactly one of header / reachable once (with overflow run) / free-list page / free-list entry; key order, separators, element bounds are checked; DB::check() must agree. Exploration over the generated set reported in the evidence.",
   note="The parser encodes the pinned layout (DESIGN.md 1.1); validated against healthy and corrupted files.", ref="4/C05"),
 "C06": dict(level="exploration", engine="E1+E2", technique="model-based property testing with whole-file hash invariants around rollbacks / read transactions / reopen, ReadOnlyTx on every mutator, full in-tx dump after every erroring call",
   text="Rollback-heavy generated histories: file bytes hashed before and after every dropped write transaction, read transaction and reopen; every mutator attempted through readers must return ReadOnlyTx; after an erroring call the transaction's whole view equals the unchanged model; later commits must match a model that never saw the abandoned work and pass exact page accounting (a leaked allocation shows as an unaccounted page).",
   note="64-bit hash of all file bytes + length; model per DESIGN.md 1.3.", ref="4/C06"),
 "C07": dict(level="exploration", engine="E1", technique="model-based property testing: full read API compared with the model overlay after every single operation of a generated write transaction over generated starting tree shapes",
   text="Single generated write transactions over fresh / one- / two- / three-level / mixed committed buckets; after every operation get, get_kv, scan, seek, range, buckets, kv_pairs, next_int of every touched bucket and ancestors are compared with the model overlay; then commit or rollback and re-check.",
   note="Model overlay = committed model clone + the transaction's ops.", ref="4/C07"),
 "C08": dict(level="exploration", engine="E1", technique="enumerative property testing: all neighbour-derived seek keys and all bound pairs x bound kinds on generated buckets, oracle = sorted-suffix rule / hand-written filter of the model",
   text="For generated buckets (empty to three-level, committed and mid-transaction, plus one fixed bucket of 67 000 entries put by a single still-open transaction) every candidate key derived from the present keys is used for seek, and every pair of candidates x {included, excluded, unbounded}^2 for range (exhaustive on small buckets, sampled on large) through tuple and std range types and the to_buckets / to_kv_pairs filters, with repeated next() after exhaustion.",
   note="seek(absent) may land on predecessor or successor (both accepted).", ref="4/C08"),
 "C09": dict(level="exploration", engine="E4", technique="schedule enumeration (as C04) of read-modify-write writer threads and readers incl. file growth; oracles = mutual-exclusion flag, unique predecessor values / final counter, no all-blocked state, reader never blocked by an idle writer, termination within a step bound",
   text="2-3 writer threads increment a counter read inside their transaction while 1-2 readers run; the first commits grow a fresh 4-page file (exclusive map lock). All schedules with <= 1 preemption, then <= 2 (capped; thorough 3), then random / PCT schedules. Violations: two write transactions open at once, a lost update, a state where every live thread is blocked, a reader blocked while only an idle uncommitted writer exists (also when the blocking is invisible to the controller: watchdog), or an execution exceeding the step bound.",
   note="Liveness as bounded progress under explored schedules; fairness not modelled.", ref="4/C09"),
 "C10": dict(level="exploration", engine="E1+E2", technique="property testing over seeded long stationary workloads with a metamorphic bound: high-water mark bounded by measured live + dirty pages (independent parser after every commit)",
   text="Seeded long workloads (fixed-size overwrite, variable-size overwrite/delete, bucket create/delete cycles, tiny values sharing leaves with values of 66-140 pages; with reopen, rollbacks, a pinned reader, rolling young readers, and runs that begin with more than 1024 pages in the free set after a one-off bulk delete) are run for hundreds to thousands of transactions; after every commit the independent parser measures live pages, dirty pages and the high-water mark; the high-water mark must stay within a bound relative to measured live and dirty pages for every prefix of the run, a pinned reader must keep seeing its snapshot, and growth must stop once it closes.",
   note="Bounds calibrated on the unchanged tree (plateau ~1.1-1.6x live; a free list that never releases exceeds the bound within ~100 transactions).", ref="4/C10"),
 "C11": dict(level="fault_enumeration", engine="E1+E2+E3", technique="fault injection enumerated over every I/O call of a target commit (LD_PRELOAD shim: EIO, ENOSPC, short write then error; RLIMIT_FSIZE for file extension), oracle = Err not panic, pre-or-post state on the same handle, independent parser, further commits and reopen match the model",
   text="A dry run counts the lseek/write/fsync calls a target commit issues; one worker process per (call, errno, short-write variant) then runs the same history with that call failing. The commit must return Err; the same handle must show exactly the pre- or post-transaction state, pass the independent parser and DB::check, accept 3-6 further generated transactions that match the model continued from the observed state, and reopen to the same. Single faults are exhaustive per target commit; pairs are sampled (a second fault, re-armed, in one of the next three commits on the same handle).",
   note="Faults at the libc boundary; a fault makes exactly one call fail.", ref="4/C11"),
 "C12": dict(level="fault_enumeration", engine="E1+E2", technique="fault enumeration: every single-byte damage at every offset of either header page (several byte values; all 255 on defined bytes in the thorough tier), zeroing, multi-byte overwrites and torn tails, after every commit count 0..N; oracle = dump equals the state of the intact header",
   text="For files after 0..N commits of generated histories every enumerated damage is applied to the newest or the older header page of a copy; opening must succeed and the full dump must equal the state recorded by the intact header whenever a byte the format defines changed (either state otherwise). Single faults are enumerated exhaustively for the offsets and values listed in the evidence.",
   note="Other header and all data pages intact; single-process open.", ref="4/C12"),
 "C13": dict(level="exploration", engine="E3+E5", technique="generated multi-process orchestrations (start offsets, hold times, forced orderings through LD_PRELOAD gates at libc boundaries, signal injection (handler without SA_RESTART) into openers blocked in flock); oracle = disjoint open intervals from monotonic timestamps, successor sees predecessor's marker, every process exits 0",
   text="2-3 worker processes open the same path (existing or not yet created), commit a marker and close, under generated start offsets / hold times and with processes parked by the shim at open64, after open64, the creator's writes, fsync, mmap64 or close; all gate pairs x release orders for two processes; for three, structured chains (A parked while holding, B queued, C started only after A or B was released and has closed) plus seeded samples; a family of waiters receives 1-12 SIGUSR1 signals (handler without SA_RESTART), each sent only while /proc shows the thread inside flock(2), and retries an open that returns Interrupted; every worker also makes two churn commits and the orchestrator verifies the final file in full. Open intervals must be pairwise disjoint, a later opener must see every earlier marker, and no open may fail (other than with Interrupted in a signalled waiter, which retries) or panic instead of waiting.",
   note="flock is a raw syscall: its effect is observed, not the call; timing decides which interleaving is produced, not the verdict.", ref="4/C13"),
 "C14": dict(level="exploration", engine="E6", technique="compile-fail program generation: hand-written (type x escape route) corpus plus programs synthesised from rustdoc JSON of the public API, compiled with rustc against the freshly built rlib; programs that compile are linked and run in a remap / page-reuse probe",
   text="Every escape program must be rejected with a borrow / lifetime (or, for thread routes, Send / Sync) error; a program that compiles is run: it copies the escaped bytes, ends the transaction, churns the database so that the file is remapped and every freed page reused, and re-reads the bytes, which must neither fault nor change, and a new write transaction must still be able to start; thread routes that compile are violations; positive controls must compile and run. The surface-driven part enumerates every public method and trait impl on every type reachable from a transaction.",
   note="unsafe client code out of scope; thread routes apply to handles, not to plain byte slices.", ref="4/C14"),
 "C15": dict(level="exploration", engine="E1+E2", technique="differential testing against golden files written by the pinned tree (4 page sizes x {pre-sized, grown by a commit of the pinned build} x current/legacy header) with generated continuation histories; refusal + unchanged bytes for every mismatching page size",
   text="Golden files produced by the pinned code are opened by the current code: dump must equal the recorded dump, the independent parser (pinned layout) must accept them, generated further transactions must commit and match the model, and opening with any other page size must be refused without touching the file.",
   note="Legacy-header files are synthesised from the pinned OldMeta layout.", ref="4/C15"),
 "C16": dict(level="exploration", engine="E1+E2", technique="metamorphic property testing: the same generated history replayed under the product of page size x initial pages x strict x populate must match one reference model; growth runs across >= 3 extension steps; odd builder values must work or be refused cleanly",
   text="Each generated history is replayed under several configurations rotating through the whole option product; return values and dumps must equal the model under every configuration, strict mode must never reject a valid commit, the independent parser must accept every file at its configured page size, 20-30 MiB growth runs must stay correct, and page sizes that are not a multiple of 8 must be refused or work.",
   note="1 MiB x 1000-page configurations only in the thorough tier (on disk).", ref="4/C16"),
}

NOT_BUILT_REASON = "check not built yet in this session (design in DESIGN.md section 4); not claimed until it exists and is silent on the unchanged tree"
ALL = ["C%02d" % i for i in range(1, 17)]

def main():
    checks = []
    for pid in ALL:
        if pid not in CHECKS:
            continue
        c = CHECKS[pid]
        checks.append({
            "property_id": pid,
            "quick_cmd": "./check %s quick" % pid,
            "thorough_cmd": "./check %s thorough" % pid,
            "evidence_file": "/verif/evidence/%s.json" % pid,
            "replay_cmd_template": "./check --replay {path}",
            "engine": c["engine"],
            "level_claimed": {"category": c["level"], "text": c["text"], "design_ref": c["ref"]},
            "level_note": c["note"],
            "technique": c["technique"],
        })
    hooks = repo_commits("Add verif-hooks") + repo_commits("verif-hooks:")
    man = {
        "version": 1,
        "setup_cmd": "cd /verif/harness && cp -n /repo/Cargo.lock Cargo.lock; CARGO_NET_OFFLINE=true cargo build --offline --profile verif && cd /verif && mkdir -p shim && if [ -f shim/io_shim.c ]; then gcc -O2 -shared -fPIC -o shim/io_shim.so shim/io_shim.c -ldl; fi",
        "hooks": {
            "guard": "cargo feature verif-hooks",
            "enable": "harness/Cargo.toml depends on jammdb = { path = \"/repo\", features = [\"verif-hooks\"] }; every ./check run rebuilds it from /repo's working tree",
            "baseline_off_cmd": "cd /repo && cargo test --workspace --no-fail-fast --offline",
            "source_commits": hooks,
            "add_only": True,
        },
        "engines": [
            {"name": "E1", "path": "harness/src/{model,ops,interp,shapes}.rs", "serves_properties": ["C01","C03","C05","C06","C07","C08","C10","C15","C16"], "kind_free_text": "reference model + operation grammar (proptest strategies) + history interpreter with oracles"},
            {"name": "E3", "path": "shim/io_shim.c + harness/src/{crash,worker}.rs", "serves_properties": ["C02","C11","C13"], "kind_free_text": "LD_PRELOAD I/O shim (write log, fault injection, gates), crash-image enumerator, worker processes"},
            {"name": "E4", "path": "harness/src/sched.rs + /repo/src/verif_hooks.rs", "serves_properties": ["C04","C09"], "kind_free_text": "cooperative schedule controller over real threads (bounded-preemption DFS by re-execution, random, PCT), driven by cfg-guarded yield points in jammdb"},
            {"name": "E5", "path": "harness/src/checks/c13.rs", "serves_properties": ["C13"], "kind_free_text": "multi-process orchestrator (worker processes + shim gates + monotonic timestamps)"},
            {"name": "E6", "path": "progs/gen_programs.py + harness/src/checks/c14.rs", "serves_properties": ["C14"], "kind_free_text": "client-program generator (corpus + rustdoc-JSON-driven), rustc driver and runtime probe"},
            {"name": "E2", "path": "harness/src/fsck.rs", "serves_properties": ["C01","C02","C05","C06","C10","C11","C12","C15","C16"], "kind_free_text": "independent file parser / page accountant written from the pinned layout"},
        ],
        "checks": checks,
        "not_applicable": [{"property_id": p, "reason": NOT_BUILT_REASON} for p in ALL if p not in CHECKS],
        "notes": "Technique family: property-based testing and fuzzing. Exit codes: 0 held on everything explored, 1 violation (VIOLATION line + replay file), 2 inconclusive (build failure, harness error, watchdog). Known findings: known_findings.json.",
    }
    json.dump(man, open(os.path.join(ROOT, "MANIFEST.json"), "w"), indent=1)
    print("wrote MANIFEST.json with", len(checks), "checks")

if __name__ == "__main__":
    main()
