#!/bin/bash
# Runs every mutant in mutants/MAP.tsv against its checks (quick tier) and writes mutants/RESULTS.md.
# Works on $JV_REPO (default /repo): in a `vp run --with-repo` snapshot use JV_REPO=$VP_RUN_REPO.
set -u
VROOT="$(cd "$(dirname "$0")/.." && pwd)"
OUT="$VROOT/mutants/RESULTS.md"
FILTER="${1:-}"
{
echo "# Mutant results (quick tier, VERIF_SEED=${VERIF_SEED:-1})"
echo
echo "Each row: a patch applied to the repository's working tree, the checks run against it, their exit codes"
echo "(1 = VIOLATION reported, 0 = silent, 2 = inconclusive) and the first violation message."
echo "'caught' mutants break a property; 'benign' ones are behaviour-preserving for the listed properties and must stay silent."
echo
echo "| mutant | expected | result | exit codes | first violation |"
echo "|---|---|---|---|---|"
} > "$OUT"
grep -v '^#' "$VROOT/mutants/MAP.tsv" | while IFS=$'\t' read -r patch rev checks expect; do
  [ -z "$patch" ] && continue
  if [ -n "$FILTER" ] && ! echo "$patch" | grep -q "$FILTER"; then continue; fi
  R=""; [ "$rev" = "R" ] && R="-R"
  res=$("$VROOT/tools/try_patch.sh" $R "$VROOT/mutants/$patch" $checks 2>&1)
  codes=$(echo "$res" | grep -o 'C[0-9]* exit=[0-9]*' | tr '\n' ' ')
  first=$(echo "$res" | grep -E '^\s+[0-9]+\s+\[' | head -1 | sed 's/^ *[0-9]* *//' | cut -c1-160 | tr '|' '/')
  if echo "$res" | grep -q "patch does not apply"; then verdict="n/a (patch does not apply)"
  elif [ "$expect" = "caught" ]; then
    if echo "$codes" | grep -q "exit=1"; then verdict="CAUGHT"; else verdict="**MISSED**"; fi
  else
    if echo "$codes" | grep -q "exit=1"; then verdict="**FALSE ALARM**"; else verdict="silent (as it should be)"; fi
  fi
  echo "| $patch${R:+ (reversed)} | $expect | $verdict | $codes | $first |" >> "$OUT"
  echo "$patch: $verdict ($codes)"
done
