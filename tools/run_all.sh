#!/bin/bash
# Runs every registered check (tier $1, default quick) on /repo as it is; prints one line per check.
cd "$(dirname "$0")/.." || exit 2
TIER="${1:-quick}"
rc=0
for id in $(python3 -c "import json;print(' '.join(c['property_id'] for c in json.load(open('MANIFEST.json'))['checks']))"); do
  out=$(VERIF_SEED="${VERIF_SEED:-1}" ./check "$id" "$TIER" 2>&1); code=$?
  echo "$id exit=$code $(echo "$out" | tail -1)"
  [ $code -ne 0 ] && rc=1
done
exit $rc
