import json,sys
props={json.loads(l)['id']:json.loads(l) for l in open('/verif/properties.jsonl')}
T=open(''+__import__('os').path.dirname(__file__)+'/template.txt').read()
spec=json.load(open(sys.argv[2]))
suffix=sys.argv[1]
for pid,sp in spec.items():
    d=props[pid]
    txt=T
    for k,v in dict(DIR='/tmp/seed/%s%s'%(pid,suffix),PID=pid,TITLE=d['title'],STATEMENT=d['statement'],QUANT=d['quantifier']['text'],TAKEN=sp['taken'],HINTS=sp['hints'],DEMO=sp['demo']).items():
        txt=txt.replace('@@'+k+'@@',v)
    open(sys.argv[3]+'/%s.txt'%pid,'w').write(txt)
    print(pid,len(txt))
