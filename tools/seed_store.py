#!/usr/bin/env python3
"""Stores a confirmed seeded change under /verif/seeded/<name>/ (patch.diff, demo.rs, meta.json).
usage: seed_store.py <name> <src SEED dir> <property> <detected-by summary> """
import json, os, shutil, sys
name, src, prop, detected = sys.argv[1:5]
d = os.path.join('/verif/seeded', name)
os.makedirs(d, exist_ok=True)
shutil.copy(os.path.join(src, 'patch.diff'), os.path.join(d, 'patch.diff'))
shutil.copy(os.path.join(src, 'demo.rs'), os.path.join(d, 'demo.rs'))
m = json.load(open(os.path.join(src, 'meta.json')))
meta = {
    "property": prop,
    "origin": "independent sub-agent given only the property text and a scratch worktree of /repo",
    "summary": m.get("summary"),
    "needs_to_manifest": m.get("needs"),
    "files_changed": m.get("files_changed"),
    "author_verification": m.get("verified"),
    "confirmed_by_me": "tools/seed_verify.sh in a fresh worktree of /repo HEAD: demo passes on HEAD; with the patch the pre-existing suite passes (93 passed, 0 failed) and the demo fails",
    "detection": detected,
    "how_to_rerun": "tools/try_patch.sh seeded/%s/patch.diff <check ids>   (applies to /repo, runs the quick tier, reverts)" % name,
}
json.dump(meta, open(os.path.join(d, 'meta.json'), 'w'), indent=1)
print("stored", d)
