#!/bin/bash
# Confirms a seeded change independently: usage tools/seed_verify.sh <dir with patch.diff + demo.rs>
# 1. demo passes on /repo HEAD  2. with the patch the pre-existing suite passes  3. with the patch the demo fails
set -u
SRC="$(readlink -f "$1")"
W=/tmp/seedv/wt.$$
export CARGO_TARGET_DIR=/tmp/seedv/target
export CARGO_NET_OFFLINE=true
mkdir -p /tmp/seedv
git -C /repo worktree add -q --detach "$W" HEAD || exit 2
cp /repo/Cargo.lock "$W"/
trap 'git -C /repo worktree remove --force "$W" 2>/dev/null' EXIT
cd "$W" || exit 2
cp "$SRC/demo.rs" tests/seed_demo.rs
r1=$(cargo test --offline ${FEATURES:+--features $FEATURES} --test seed_demo 2>&1 | grep -E "^test result" | tail -1)
echo "demo on HEAD:        $r1"
rm tests/seed_demo.rs
if ! git apply "$SRC/patch.diff"; then echo "PATCH DOES NOT APPLY"; exit 1; fi
r2=$(cargo test --workspace --no-fail-fast --offline 2>&1 | grep -E "^test result" | awk '{p+=$4; f+=$6} END {print p" passed, "f" failed"}')
echo "suite with patch:    $r2"
cp "$SRC/demo.rs" tests/seed_demo.rs
r3=$(cargo test --offline ${FEATURES:+--features $FEATURES} --test seed_demo 2>&1 | grep -E "^test result|panicked" | head -3 | tr '\n' ' ' | cut -c1-300)
echo "demo with patch:     $r3"
