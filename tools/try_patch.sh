#!/bin/bash
# Applies a patch to /repo's working tree, runs the given checks (quick tier), reverts.
# usage: tools/try_patch.sh [-R] <patch> <ID>...      (prints "<ID> exit=<code>" per check)
set -u
REV=""
if [ "$1" = "-R" ]; then REV="-R"; shift; fi
PATCH="$(readlink -f "$1")"; shift
TIER="${TIER:-quick}"
REPO="${JV_REPO:-/repo}"
VROOT="$(cd "$(dirname "$0")/.." && pwd)"
cd "$REPO" || exit 2
if [ -n "$(git status --porcelain --untracked-files=no)" ]; then echo "$REPO not clean" >&2; exit 2; fi
if ! git apply $REV "$PATCH"; then echo "patch does not apply" >&2; exit 2; fi
# evidence written while a patch is applied must not replace the evidence of the unchanged tree
EVBAK=$(mktemp -d /tmp/jv-evbak.XXXXXX)
cp -a "$VROOT"/evidence/. "$EVBAK"/ 2>/dev/null
trap 'git -C "$REPO" checkout -- . ; git -C "$REPO" clean -fdq src; rm -rf "$VROOT"/evidence; mkdir -p "$VROOT"/evidence; cp -a "$EVBAK"/. "$VROOT"/evidence/ 2>/dev/null; rm -rf "$EVBAK"' EXIT
for id in "$@"; do
  out=$(cd "$VROOT" && VERIF_SEED="${VERIF_SEED:-1}" ./check "$id" "$TIER" 2>&1)
  code=$?
  echo "$id exit=$code $(echo "$out" | grep -c '^VIOLATION') violation line(s)"
  echo "$out" | grep -A1 '^VIOLATION' | grep -v '^VIOLATION' | grep -v '^--' | cut -c1-220 | sort | uniq -c | sort -rn | head -3
done
